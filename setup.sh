#!/bin/sh
# Offline set-up after a fresh restore: build the native replay binary (dev and release
# profiles) and validate the oracle.  Nothing is fetched; everything comes from files on disk.
set -e
cd "$(dirname "$0")"
export CARGO_NET_OFFLINE=true
unset RUSTFLAGS
python3 tools/gen_instances.py
(cd replay && cargo build --offline -q && cargo build --offline -q --release)
(cd replay && cargo run --offline -q --release -- --specval)
echo "setup ok"
