"""A small symbolic interpreter for rustc MIR text (-Zunpretty=mir), producing SMT-LIB2.

Scope: loop-free slices of one function made of integer / f64 arithmetic, Option and tuple
plumbing, switchInt / assert terminators and a WHITELIST of std calls with hand models.
Anything outside the whitelist raises Inconclusive: the caller must then report the check as
undecided, never as passed.

Sorts: uN/iN -> (_ BitVec N) (wrapping, as the machine does); bool -> Bool;
f64 -> (_ FloatingPoint 11 53) with RNE for Mul / IntToFloat and the Rust rule for
FloatToInt (NaN -> 0, saturating, round toward zero).
"""
import re


class Inconclusive(Exception):
    pass


# ---------------------------------------------------------------------------- values

class V:
    pass


class BV(V):
    def __init__(self, term, width):
        self.term, self.width = term, width


class Bool(V):
    def __init__(self, term):
        self.term = term


class F64(V):
    def __init__(self, term):
        self.term = term


class Opt(V):
    """Option<T>: tag (Bool term, true = Some) and payload value"""
    def __init__(self, tag, val):
        self.tag, self.val = tag, val


class Tup(V):
    def __init__(self, items):
        self.items = items


class Ref(V):
    def __init__(self, target):
        self.target = target   # a V


class Player(V):
    def __init__(self, is_white):
        self.is_white = is_white   # Bool term


class Dur(V):
    """std::time::Duration restricted to whole milliseconds (only from_millis /
    saturating_sub / as_millis are modelled, which preserve that)."""
    def __init__(self, millis):
        self.millis = millis   # BV64 term


class Unit(V):
    pass


def ite(c, a, b):
    """merge two values under a Bool term"""
    if type(a) is not type(b):
        raise Inconclusive("cannot merge values of different shape")
    if isinstance(a, BV):
        return BV("(ite %s %s %s)" % (c, a.term, b.term), a.width)
    if isinstance(a, Bool):
        return Bool("(ite %s %s %s)" % (c, a.term, b.term))
    if isinstance(a, F64):
        return F64("(ite %s %s %s)" % (c, a.term, b.term))
    if isinstance(a, Dur):
        return Dur("(ite %s %s %s)" % (c, a.millis, b.millis))
    if isinstance(a, Opt):
        return Opt("(ite %s %s %s)" % (c, a.tag, b.tag), ite(c, a.val, b.val))
    raise Inconclusive("merge of %s" % type(a).__name__)


def bvconst(v, w):
    return BV("(_ bv%d %d)" % (v % (1 << w), w), w)


# ---------------------------------------------------------------------------- parsing

class Function:
    def __init__(self, name, text):
        self.name = name
        self.text = text
        self.blocks = {}      # "bb12" -> (statements [str], terminator str)
        self.debug = {}       # debug name -> [locals]
        self.types = {}       # local -> type string
        self._parse()

    def _parse(self):
        for m in re.finditer(r"^\s*debug (\w+) => (_\d+);", self.text, re.M):
            self.debug.setdefault(m.group(1), []).append(m.group(2))
        for m in re.finditer(r"^\s*let (?:mut )?(_\d+): (.+);$", self.text, re.M):
            self.types[m.group(1)] = m.group(2)
        for m in re.finditer(r"^    (bb\d+)(?: \(cleanup\))?: \{\n(.*?)^    \}", self.text, re.M | re.S):
            lines = [l.strip() for l in m.group(2).strip().split("\n") if l.strip()]
            self.blocks[m.group(1)] = (lines[:-1], lines[-1])


def load_function(mir_text, fn_name):
    m = re.search(r"^fn %s\(.*?^\}" % re.escape(fn_name), mir_text, re.M | re.S)
    if not m:
        raise Inconclusive("function %s not found in the MIR dump" % fn_name)
    return Function(fn_name, m.group(0))


def promoted_players(mir_text, fn_name):
    """promoted constants of the function that are `&Player::White` / `&Player::Black`"""
    out = {}
    for m in re.finditer(r"^const %s::(promoted\[\d+\]): &(?:chess::)?Player = \{(.*?)^\}" % re.escape(fn_name), mir_text, re.M | re.S):
        body = m.group(2)
        if "Player::White" in body and "Player::Black" not in body:
            out[m.group(1)] = Ref(Player("true"))
        elif "Player::Black" in body and "Player::White" not in body:
            out[m.group(1)] = Ref(Player("false"))
    return out


def named_consts(mir_text):
    out = {}
    for m in re.finditer(r"^const (?:[\w:]+::)?(\w+): (\w+) = const ([^;]+);", mir_text, re.M):
        out[m.group(1)] = (m.group(2), m.group(3))
    return out


# ---------------------------------------------------------------------------- interpreter

def f64_const(text):
    """'0.02f64' -> SMT FP literal via its exact IEEE bits"""
    import struct
    x = float(text.replace("f64", "").replace("_", ""))
    bits = struct.unpack(">Q", struct.pack(">d", x))[0]
    return F64("((_ to_fp 11 53) #x%016x)" % bits)


def float_to_u64(f):
    """Rust `as u64`: NaN -> 0, negative -> 0, >= 2^64 -> MAX, else truncation."""
    two64 = "((_ to_fp 11 53) #x43f0000000000000)"   # 2^64
    zero = "((_ to_fp 11 53) #x0000000000000000)"
    t = f.term
    return BV("(ite (fp.isNaN %s) (_ bv0 64) (ite (fp.leq %s %s) (_ bv0 64) (ite (fp.geq %s %s) #xffffffffffffffff ((_ fp.to_ubv 64) RTZ %s))))"
              % (t, t, zero, t, two64, t), 64)


class Event:
    def __init__(self, kind, cond, payload=None, where=""):
        self.kind, self.cond, self.payload, self.where = kind, cond, payload, where


class Interp:
    def __init__(self, fn, consts, inputs, stop_calls, promoted=None):
        self.fn = fn
        self.promoted = promoted or {}
        self.consts = consts
        self.inputs = inputs          # local -> V  (symbolic inputs of the slice)
        self.stop_calls = stop_calls  # call names at which a path ends with a 'reach' event
        self.events = []
        self.statements_seen = 0
        self.calls_seen = set()

    # -- operands
    def place(self, env, text):
        text = text.strip()
        m = re.match(r"^\(\*(_\d+)\)$", text)
        if m:
            v = self.local(env, m.group(1))
            if isinstance(v, Ref):
                return v.target
            return v
        m = re.match(r"^\((_\d+)\.(\d+): [^)]+\)$", text)
        if m:
            v = self.local(env, m.group(1))
            if isinstance(v, Tup):
                return v.items[int(m.group(2))]
            raise Inconclusive("field of non-tuple: " + text)
        m = re.match(r"^\(\((_\d+) as Some\)\.0: [^)]+\)$", text)
        if m:
            v = self.local(env, m.group(1))
            if isinstance(v, Opt):
                return v.val
            raise Inconclusive("downcast of non-Option: " + text)
        m = re.match(r"^_\d+$", text)
        if m:
            return self.local(env, text)
        raise Inconclusive("unsupported place: " + text)

    def local(self, env, name):
        if name in env:
            return env[name]
        if name in self.inputs:
            return self.inputs[name]
        raise Inconclusive("read of a local the slice never wrote: " + name)

    def operand(self, env, text):
        text = text.strip()
        for pre in ("move ", "copy ", "no_retag copy ", "no_retag move "):
            if text.startswith(pre):
                return self.place(env, text[len(pre):])
        if text.startswith("const "):
            return self.constant(text[6:].strip())
        return self.place(env, text)

    def constant(self, c):
        m = re.match(r"^(-?[\d_]+)_(u|i)(8|16|32|64|128|size)$", c)
        if m:
            w = 64 if m.group(3) == "size" else int(m.group(3))
            return bvconst(int(m.group(1).replace("_", "")), w)
        if re.match(r"^-?[\d_.eE+-]+f64$", c):
            return f64_const(c)
        if c in ("true", "false"):
            return Bool(c)
        name = c.split("::")[-1]
        if name in self.consts:
            ty, val = self.consts[name]
            return self.constant(val)
        m = re.search(r"::(promoted\[\d+\])$", c)
        if m and m.group(1) in self.promoted:
            return self.promoted[m.group(1)]
        raise Inconclusive("unsupported constant: " + c)

    # -- rvalues
    def rvalue(self, env, rhs):
        rhs = rhs.strip()
        m = re.match(r"^&(?:mut )?(.+)$", rhs)
        if m:
            return Ref(self.place(env, m.group(1)))
        m = re.match(r"^Option::<[^>]+>::None$", rhs)
        if m:
            inner = rhs[len("Option::<"):-len(">::None")]
            return Opt("false", self.default_of(inner))
        m = re.match(r"^Option::<[^>]+>::Some\((.+)\)$", rhs)
        if m:
            return Opt("true", self.operand(env, m.group(1)))
        m = re.match(r"^(.+) as (\w+) \((\w+)\)$", rhs)
        if m:
            v = self.operand(env, m.group(1))
            kind = m.group(3)
            if kind == "IntToFloat" and isinstance(v, BV) and m.group(2) == "f64":
                return F64("((_ to_fp_unsigned 11 53) RNE %s)" % v.term)
            if kind == "FloatToInt" and isinstance(v, F64) and m.group(2) == "u64":
                return float_to_u64(v)
            raise Inconclusive("unsupported cast: " + rhs)
        m = re.match(r"^(\w+)\((.+), (.+)\)$", rhs)
        if m and m.group(1) in ("Mul", "Add", "Sub", "AddWithOverflow", "SubWithOverflow", "Lt", "Le", "Gt", "Ge", "Eq", "Ne"):
            op = m.group(1)
            a = self.operand(env, m.group(2))
            b = self.operand(env, m.group(3))
            if isinstance(a, F64) and isinstance(b, F64) and op == "Mul":
                return F64("(fp.mul RNE %s %s)" % (a.term, b.term))
            if isinstance(a, BV) and isinstance(b, BV) and a.width == b.width:
                w = a.width
                if op == "Add":
                    return BV("(bvadd %s %s)" % (a.term, b.term), w)
                if op == "Sub":
                    return BV("(bvsub %s %s)" % (a.term, b.term), w)
                if op == "AddWithOverflow":
                    s = "(bvadd %s %s)" % (a.term, b.term)
                    return Tup([BV(s, w), Bool("(bvult %s %s)" % (s, a.term))])
                if op == "SubWithOverflow":
                    return Tup([BV("(bvsub %s %s)" % (a.term, b.term), w), Bool("(bvult %s %s)" % (a.term, b.term))])
                cmpop = {"Lt": "bvult", "Le": "bvule", "Gt": "bvugt", "Ge": "bvuge"}.get(op)
                if cmpop:
                    return Bool("(%s %s %s)" % (cmpop, a.term, b.term))
                if op == "Eq":
                    return Bool("(= %s %s)" % (a.term, b.term))
                if op == "Ne":
                    return Bool("(not (= %s %s))" % (a.term, b.term))
            raise Inconclusive("unsupported binary operation: " + rhs)
        m = re.match(r"^discriminant\((_\d+)\)$", rhs)
        if m:
            v = self.local(env, m.group(1))
            if isinstance(v, Opt):
                return BV("(ite %s (_ bv1 64) (_ bv0 64))" % v.tag, 64)
            raise Inconclusive("discriminant of non-Option")
        m = re.match(r"^Not\((.+)\)$", rhs)
        if m:
            v = self.operand(env, m.group(1))
            if isinstance(v, Bool):
                return Bool("(not %s)" % v.term)
        m = re.match(r"^\((.+),\)$", rhs)
        if m:
            return Tup([self.operand(env, m.group(1))])
        return self.operand(env, rhs)

    def default_of(self, ty):
        ty = ty.strip()
        if ty in ("Duration", "std::time::Duration"):
            return Dur("(_ bv0 64)")
        if ty == "u64":
            return bvconst(0, 64)
        raise Inconclusive("no default payload for Option<%s>" % ty)

    # -- calls with hand models
    def call(self, env, func, args, pc):
        self.calls_seen.add(func)
        a = [self.operand(env, x) for x in args]
        if func == "Option::<u64>::is_some":
            o = a[0].target if isinstance(a[0], Ref) else a[0]
            return Bool(o.tag)
        if func == "Option::<u64>::is_none":
            o = a[0].target if isinstance(a[0], Ref) else a[0]
            return Bool("(not %s)" % o.tag)
        if func == "Option::<u64>::unwrap":
            self.events.append(Event("panic", "(and %s (not %s))" % (pc, a[0].tag), where="Option::unwrap on None"))
            return a[0].val
        if func in ("Option::<u64>::unwrap_or", "Option::<u64>::unwrap_or_default"):
            d = a[1] if len(a) > 1 else bvconst(0, 64)
            return ite(a[0].tag, a[0].val, d)
        if func == "Game::player":
            return self.inputs["__player__"]
        if func == "<Player as PartialEq>::eq":
            x = a[0].target if isinstance(a[0], Ref) else a[0]
            y = a[1].target if isinstance(a[1], Ref) else a[1]
            return Bool("(= %s %s)" % (x.is_white, y.is_white))
        if func == "<Player as PartialEq>::ne":
            x = a[0].target if isinstance(a[0], Ref) else a[0]
            y = a[1].target if isinstance(a[1], Ref) else a[1]
            return Bool("(not (= %s %s))" % (x.is_white, y.is_white))
        if func == "Duration::from_millis":
            return Dur(a[0].term)
        if func == "Duration::saturating_sub":
            x, y = a[0], a[1]
            return Dur("(ite (bvuge %s %s) (bvsub %s %s) (_ bv0 64))" % (x.millis, y.millis, x.millis, y.millis))
        if func == "Duration::as_millis":
            d = a[0].target if isinstance(a[0], Ref) else a[0]
            return BV("((_ zero_extend 64) %s)" % d.millis, 128)
        m = re.match(r"^(?:core::num::<impl u64>|u64)::(saturating_sub|saturating_add|wrapping_sub|wrapping_add|min|max)$", func)
        if not m:
            m = re.match(r"^(?:<u64 as Ord>|Ord|std::cmp|core::cmp)::(min|max)(?:::<u64>)?$", func)
        if m and len(a) == 2 and all(isinstance(x, BV) and x.width == 64 for x in a):
            x, y = a[0].term, a[1].term
            op = m.group(1)
            if op == "saturating_sub":
                return BV("(ite (bvuge %s %s) (bvsub %s %s) (_ bv0 64))" % (x, y, x, y), 64)
            if op == "saturating_add":
                s = "(bvadd %s %s)" % (x, y)
                return BV("(ite (bvult %s %s) #xffffffffffffffff %s)" % (s, x, s), 64)
            if op == "wrapping_sub":
                return BV("(bvsub %s %s)" % (x, y), 64)
            if op == "wrapping_add":
                return BV("(bvadd %s %s)" % (x, y), 64)
            if op == "min":
                return BV("(ite (bvule %s %s) %s %s)" % (x, y, x, y), 64)
            if op == "max":
                return BV("(ite (bvuge %s %s) %s %s)" % (x, y, x, y), 64)
        m = re.match(r"^(?:core::num::<impl u64>|u64)::(checked_sub|checked_add)$", func)
        if m and len(a) == 2:
            x, y = a[0].term, a[1].term
            if m.group(1) == "checked_sub":
                return Opt("(bvuge %s %s)" % (x, y), BV("(bvsub %s %s)" % (x, y), 64))
            s = "(bvadd %s %s)" % (x, y)
            return Opt("(bvuge %s %s)" % (s, x), BV(s, 64))
        raise Inconclusive("call outside the whitelist of modelled std functions: " + func)

    # -- driver
    def run(self, start):
        self._walk(start, {}, "true", 0)

    def _walk(self, bb, env, pc, depth):
        if depth > 200:
            raise Inconclusive("slice is not loop free")
        stmts, term = self.fn.blocks[bb]
        env = dict(env)
        for s in stmts:
            self.statements_seen += 1
            if s.startswith(("StorageLive", "StorageDead", "nop", "FakeRead", "PlaceMention", "Retag", "AscribeUserType", "Coverage", "ConstEvalCounter", "//")):
                continue
            m = re.match(r"^(_\d+) = (.+);$", s)
            if not m:
                m2 = re.match(r"^\((_\d+)\.(\d+): [^)]+\) = (.+);$", s)
                raise Inconclusive("unsupported statement: " + s)
            env[m.group(1)] = self.rvalue(env, m.group(2))
        # terminator
        m = re.match(r"^goto -> (bb\d+);$", term)
        if m:
            return self._walk(m.group(1), env, pc, depth + 1)
        m = re.match(r"^switchInt\((.+)\) -> \[(.+)\];$", term)
        if m:
            v = self.operand(env, m.group(1))
            arms = [x.strip() for x in m.group(2).split(",")]
            taken = []
            for arm in arms:
                key, target = [x.strip() for x in arm.split(":")]
                if key == "otherwise":
                    cond = "(and %s)" % " ".join(["true"] + ["(not %s)" % c for c in taken])
                else:
                    k = int(key)
                    if isinstance(v, Bool):
                        cond = v.term if k != 0 else "(not %s)" % v.term
                    else:
                        cond = "(= %s (_ bv%d %d))" % (v.term, k, v.width)
                    taken.append(cond)
                tstmts, tterm = self.fn.blocks[target]
                if tterm.startswith("unreachable") and not tstmts:
                    continue
                self._walk(target, env, "(and %s %s)" % (pc, cond), depth + 1)
            return
        m = re.match(r"^assert\((!?)(.+?), \"(.*?)\".*\) -> \[success: (bb\d+), unwind[^\]]*\];$", term)
        if m:
            v = self.operand(env, m.group(2))
            ok = "(not %s)" % v.term if m.group(1) == "!" else v.term
            self.events.append(Event("panic", "(and %s (not %s))" % (pc, ok), where=m.group(3)))
            return self._walk(m.group(4), env, "(and %s %s)" % (pc, ok), depth + 1)
        m = re.match(r"^(_\d+) = (.+?)\((.*)\) -> \[return: (bb\d+), unwind[^\]]*\];$", term)
        if m:
            dest, func, argtext, nxt = m.groups()
            args = split_args(argtext)
            if any(re.search(rx, func) for rx in self.stop_calls):
                self.events.append(Event("end", pc, payload=dict(env), where=func))
                return
            env[dest] = self.call(env, func, args, pc)
            if func == "Duration::as_millis":
                self.events.append(Event("budget", pc, payload=(env[dest], args[0]), where=bb))
            return self._walk(nxt, env, pc, depth + 1)
        if term.startswith("return") or term.startswith("drop(") or term.startswith("unreachable"):
            self.events.append(Event("end", pc, payload=dict(env), where=term))
            return
        raise Inconclusive("unsupported terminator: " + term)


def split_args(text):
    out, depth, cur = [], 0, ""
    for ch in text:
        if ch in "([{<":
            depth += 1
        elif ch in ")]}>":
            depth -= 1
        if ch == "," and depth == 0:
            out.append(cur.strip())
            cur = ""
        else:
            cur += ch
    if cur.strip():
        out.append(cur.strip())
    return out
