"""C13: the time budget `go` allots, decided on the MIR of uci::command_go.

The slice between the four `Option::<u64>::is_some` tests and the creation of the timer
thread is interpreted symbolically (mir.py) with wtime, btime, winc, binc, movetime (64-bit,
each optional), `infinite` and the side to move as solver variables.  Obligations:

  dev      no `attempt to compute ... which would overflow` edge and no unwrap-on-None is reachable
           (MIR compiled with -C overflow-checks=on, i.e. the debug profile)
  release  whenever a timer is armed from the clocks, budget_ms <= remaining clock of the side to move;
           whenever it is armed from movetime, budget_ms <= movetime
           (MIR compiled with -C overflow-checks=off: wrapping arithmetic, the profile users run)

Each query goes to z3 and to cvc5; disagreement or an `(error` line is inconclusive.
A model is turned into a `go` line and fed to the real binary (dev and release builds of
/repo's current tree); only what reproduces there is reported.
"""
import os
import re
import subprocess
import sys
import time

from . import mir

REPO = "/repo"
VERIF = os.path.dirname(os.path.dirname(os.path.abspath(__file__)))
BUILD = os.path.join(VERIF, "build")

INPUT_NAMES = ["wtime", "btime", "winc", "binc", "move_time"]


def sh(cmd, **kw):
    env = dict(os.environ)
    env.pop("RUSTFLAGS", None)
    env["CARGO_NET_OFFLINE"] = "true"
    return subprocess.run(cmd, shell=True, stdout=subprocess.PIPE, stderr=subprocess.STDOUT, text=True, env=env, **kw)


def dump_mir(overflow):
    """MIR of /repo's current working tree (nightly rustc), with overflow checks on or off."""
    tdir = os.path.join(BUILD, "mir-target-" + overflow)
    os.makedirs(tdir, exist_ok=True)
    out = os.path.join(BUILD, "command_go.%s.mir" % overflow)
    # touching main.rs forces rustc to run again so that the dump is never stale or empty
    r = sh("cd %s && touch src/main.rs && CARGO_TARGET_DIR=%s cargo +nightly rustc --offline --bin rustybait -- "
           "-Zunpretty=mir -C debug-assertions=off -C overflow-checks=%s > %s" % (REPO, tdir, overflow, out), timeout=900)
    text = open(out).read() if os.path.exists(out) else ""
    if "fn command_go(" not in text:
        raise mir.Inconclusive("MIR dump failed: " + r.stdout[-600:])
    return text


def encode(mir_text):
    fn = mir.load_function(mir_text, "command_go")
    consts = mir.named_consts(mir_text)
    promoted = mir.promoted_players(mir_text, "command_go")
    decls = []
    inputs = {}
    for name in INPUT_NAMES:
        locs = fn.debug.get(name)
        if not locs:
            raise mir.Inconclusive("no `debug %s` local in command_go" % name)
        loc = locs[0]   # the Option<u64> declared first; the unwrapped shadow comes later
        if "Option<u64>" not in fn.types.get(loc, "Option<u64>"):
            raise mir.Inconclusive("%s is not an Option<u64>" % name)
        decls += ["(declare-const %s_some Bool)" % name, "(declare-const %s (_ BitVec 64))" % name]
        inputs[loc] = mir.Opt("%s_some" % name, mir.BV(name, 64))
    inf = fn.debug.get("infinite")
    if not inf:
        raise mir.Inconclusive("no `debug infinite` local")
    decls.append("(declare-const infinite Bool)")
    inputs[inf[0]] = mir.Bool("infinite")
    decls.append("(declare-const white_to_move Bool)")
    inputs["__player__"] = mir.Player("white_to_move")
    g = fn.debug.get("game")
    if g:
        inputs[g[0]] = mir.Ref(mir.Unit())
    # start: the block that initialises `time` to None
    tl = fn.debug.get("time")
    if not tl:
        raise mir.Inconclusive("no `debug time` local")
    start = None
    for bb, (stmts, term) in fn.blocks.items():
        if any(re.match(r"^%s = Option::<(std::time::)?Duration>::None;$" % re.escape(tl[0]), s) for s in stmts):
            start = bb
    if start is None:
        raise mir.Inconclusive("start of the budget slice not found")
    stop = [r"^spawn::", r"Arc<Atomic<bool>> as Deref", r"Argument::<'_>::new_debug", r"Atomic::<bool>::store", r"^std::thread::spawn", r"^thread::spawn"]
    it = mir.Interp(fn, consts, inputs, stop, promoted)
    it.run(start)
    # the value announced (`info time`) must be the value the timer thread sleeps for
    budgets = [e for e in it.events if e.kind == "budget"]
    for e in budgets:
        ref_arg = e.payload[1]   # e.g. "move _97"
        m = re.search(r"(_\d+)$", ref_arg)
        refl = m.group(1) if m else None
        src = None
        for bb, (stmts, term) in fn.blocks.items():
            for s in stmts:
                mm = re.match(r"^%s = &(_\d+);$" % re.escape(refl or "_"), s)
                if mm:
                    src = mm.group(1)
        if not src or not re.search(r"\{closure@[^}]*\} \{ time: copy %s," % re.escape(src), fn.text):
            raise mir.Inconclusive("cannot tie the announced time to the timer thread's sleep duration")
    return decls, it, fn


def solve(script, want_model_vars=()):
    """Runs one query on z3 and cvc5.  Returns (verdict, model dict, detail)."""
    os.makedirs(BUILD, exist_ok=True)
    path = os.path.join(BUILD, "q_%d.smt2" % os.getpid())
    body = "(set-logic ALL)\n(set-option :produce-models true)\n" + script + "\n(check-sat)\n"
    if want_model_vars:
        body += "(get-value (%s))\n" % " ".join(want_model_vars)
    open(path, "w").write(body)
    outs = {}
    times = {}
    for name, cmd in (("z3", "z3 -T:120 %s" % path), ("cvc5", "cvc5 --lang smt2 --tlimit=120000 --produce-models %s" % path)):
        t0 = time.time()
        r = sh(cmd, timeout=200)
        times[name] = time.time() - t0
        outs[name] = r.stdout.strip()
    verdicts = {}
    for name, o in outs.items():
        first = o.splitlines()[0].strip() if o else ""
        if "(error" in o and first != "unsat":
            verdicts[name] = "error"
        else:
            verdicts[name] = first if first in ("sat", "unsat") else "unknown"
    if verdicts["z3"] != verdicts["cvc5"] or verdicts["z3"] not in ("sat", "unsat"):
        return "inconclusive", {}, {"verdicts": verdicts, "out": {k: v[:300] for k, v in outs.items()}, "solver_s": times}
    model = {}
    if verdicts["z3"] == "sat":
        for m in re.finditer(r"\((\w+) (#x[0-9a-fA-F]+|#b[01]+|true|false|\(_ bv\d+ \d+\))\)", outs["z3"]):
            v = m.group(2)
            if v.startswith("#x"):
                model[m.group(1)] = int(v[2:], 16)
            elif v.startswith("#b"):
                model[m.group(1)] = int(v[2:], 2)
            elif v.startswith("(_ bv"):
                model[m.group(1)] = int(v.split()[1][2:])
            else:
                model[m.group(1)] = (v == "true")
    return verdicts["z3"], model, {"verdicts": verdicts, "solver_s": times}


MODEL_VARS = ["wtime_some", "wtime", "btime_some", "btime", "winc_some", "winc", "binc_some", "binc",
              "move_time_some", "move_time", "infinite", "white_to_move"]


def go_line(model):
    parts = ["go"]
    for name, key in (("wtime", "wtime"), ("btime", "btime"), ("winc", "winc"), ("binc", "binc"), ("move_time", "movetime")):
        if model.get(name + "_some"):
            parts += [key, str(model.get(name, 0))]
    if model.get("infinite"):
        parts.append("infinite")
    return " ".join(parts)


def build_binary(profile):
    tdir = os.path.join(BUILD, "repo-target")
    flag = "--release" if profile == "release" else ""
    r = sh("cd %s && CARGO_TARGET_DIR=%s cargo build --offline -q %s --bin rustybait" % (REPO, tdir, flag), timeout=1800)
    path = os.path.join(tdir, "release" if profile == "release" else "debug", "rustybait")
    if not os.path.exists(path):
        raise mir.Inconclusive("cannot build /repo (%s): %s" % (profile, r.stdout[-400:]))
    return path


def run_go(binary, white_to_move, line):
    """Feeds `position` + the go line to the real binary; returns (info_time or None, panicked, raw)."""
    fen = "startpos" if white_to_move else "fen rnbqkbnr/pppppppp/8/8/8/8/PPPPPPPP/RNBQKBNR b KQkq - 0 1"
    script = "position %s\n%s\nstop\nquit\n" % (fen, line)
    try:
        r = subprocess.run([binary], input=script, stdout=subprocess.PIPE, stderr=subprocess.STDOUT, text=True, timeout=60)
        out = r.stdout
    except subprocess.TimeoutExpired as e:
        out = (e.stdout or b"").decode("utf-8", "replace") if isinstance(e.stdout, bytes) else (e.stdout or "")
        return None, False, "TIMEOUT " + out[-300:]
    m = re.search(r"info time (\d+)", out)
    return (int(m.group(1)) if m else None), ("panicked" in out), out[-600:]


# ------------------------------------------------------------------------------------------
# obligations
# ------------------------------------------------------------------------------------------

def _site_names(events):
    """stable role names for panic sites: <kind>:<which clock term> in MIR order"""
    names = []
    count = {}
    for e in events:
        if "unwrap" in e.where:
            kind = "unwrap-none"
        elif "+" in e.where:
            kind = "add-overflow"
        elif "-" in e.where:
            kind = "sub-overflow"
        else:
            kind = "panic"
        k = count.get(kind, 0)
        count[kind] = k + 1
        names.append("%s#%d" % (kind, k))
    return names


def obligations(decls, it, profile):
    """List of (id, smt assertion whose satisfiability means VIOLATED, kind)."""
    obs = []
    panics = [e for e in it.events if e.kind == "panic"]
    if profile == "dev":
        for name, e in zip(_site_names(panics), panics):
            obs.append(("dev:no-panic:" + name, e.cond, "panic"))
    else:
        mt = "((_ zero_extend 64) move_time)"
        budgets = [e for e in it.events if e.kind == "budget"]
        for side, pred, clock in (("white", "white_to_move", "wtime"), ("black", "(not white_to_move)", "btime")):
            bad = " ".join("(and %s (bvugt %s ((_ zero_extend 64) %s)))" % (e.cond, e.payload[0].term, clock) for e in budgets)
            obs.append(("release:budget<=clock:%s-to-move" % side, "(and %s (not move_time_some) (or false %s))" % (pred, bad), "clock"))
        bad = " ".join("(and %s (bvugt %s %s))" % (e.cond, e.payload[0].term, mt) for e in budgets)
        obs.append(("release:budget<=movetime", "(and move_time_some (or false %s))" % bad, "movetime"))
        for name, e in zip(_site_names(panics), panics):
            # the release MIR has no overflow asserts; unwrap-on-None would still panic
            obs.append(("release:no-panic:" + name, e.cond, "panic"))
    return obs


def eval_encoding(decls, it, vec):
    """What the encoding says for one concrete input vector: (timer armed?, budget, panics?)."""
    fix = []
    for name in INPUT_NAMES:
        v = vec.get(name)
        fix.append("(assert (= %s_some %s))" % (name, "true" if v is not None else "false"))
        fix.append("(assert (= %s (_ bv%d 64)))" % (name, v if v is not None else 0))
    fix.append("(assert (= infinite %s))" % ("true" if vec.get("infinite") else "false"))
    fix.append("(assert (= white_to_move %s))" % ("true" if vec.get("white", True) else "false"))
    budgets = [e for e in it.events if e.kind == "budget"]
    panics = [e for e in it.events if e.kind == "panic"]
    script = "\n".join(decls + fix)
    script += "\n(declare-const armed Bool)\n(declare-const budget (_ BitVec 128))\n(declare-const panics Bool)\n"
    script += "(assert (= panics (or false %s)))\n" % " ".join(e.cond for e in panics)
    script += "(assert (= armed (or false %s)))\n" % " ".join(e.cond for e in budgets)
    for e in budgets:
        script += "(assert (=> %s (= budget %s)))\n" % (e.cond, e.payload[0].term)
    verdict, model, detail = solve(script, ["armed", "budget", "panics"])
    if verdict != "sat":
        raise mir.Inconclusive("encoding is not functional on a concrete vector: %s" % detail)
    return model.get("armed"), model.get("budget"), model.get("panics")


def validation_vectors(seed, n):
    import random
    r = random.Random("c13-%d" % seed)
    vecs = [
        dict(wtime=60000, btime=60000, winc=1000, binc=1000),
        dict(wtime=300000, btime=200000, winc=0, binc=0, white=False),
        dict(wtime=7400, btime=9000, winc=0, binc=0),
        dict(wtime=1000, btime=1000, winc=2000, binc=2000, white=False),
        dict(move_time=1000),
        dict(move_time=3),
        dict(wtime=60000, btime=60000, winc=0, binc=0, move_time=250),
        dict(wtime=60000, btime=60000, winc=0, binc=0, infinite=True),
        dict(wtime=60000, btime=60000),
        dict(wtime=10000, btime=100, winc=0, binc=0),
    ]
    for _ in range(n):
        v = {}
        if r.random() < 0.8:
            v = dict(wtime=r.choice([r.randrange(0, 20000), r.randrange(0, 10 ** 7)]),
                     btime=r.choice([r.randrange(0, 20000), r.randrange(0, 10 ** 7)]),
                     winc=r.choice([0, r.randrange(0, 400), r.randrange(0, 30000)]),
                     binc=r.choice([0, r.randrange(0, 400), r.randrange(0, 30000)]))
        if r.random() < 0.25:
            v["move_time"] = r.randrange(0, 5000)
        v["white"] = r.random() < 0.5
        vecs.append(v)
    return vecs


def vec_go_line(v):
    parts = ["go"]
    for name, key in (("wtime", "wtime"), ("btime", "btime"), ("winc", "winc"), ("binc", "binc"), ("move_time", "movetime")):
        if v.get(name) is not None:
            parts += [key, str(v[name])]
    if v.get("infinite"):
        parts.append("infinite")
    return " ".join(parts)


# ------------------------------------------------------------------------------------------
# the check
# ------------------------------------------------------------------------------------------

def run(tier, seed, common):
    t0 = time.time()
    prop = "C13"
    out = {"queries": [], "validated": [], "functions": ["uci::command_go (MIR basic blocks from the first Option::is_some test to the timer-thread spawn)"]}
    assumptions = [
        "std calls are replaced by hand models: Option::<u64>::{is_some,unwrap}, Duration::{from_millis,saturating_sub,as_millis} (Duration kept as whole milliseconds), u64::{saturating_add,saturating_sub,min,max,checked_*}, <Player as PartialEq>::eq, Game::player (= symbolic side to move)",
        "f64: IntToFloat = to_fp_unsigned RNE, Mul = fp.mul RNE, FloatToInt = Rust's saturating truncation (NaN -> 0)",
        "argument parsing (`terms.next().and_then(parse)`) is outside the slice: every Option<u64> value is admitted",
        "`announced within it` (wall-clock behaviour of the sleeping timer thread) is a scheduling statement and is not decided here",
    ]
    queries = 0
    solver_s = 0.0
    violations = []
    known_hits = []
    inconclusive = []
    try:
        texts = {"dev": dump_mir("on"), "release": dump_mir("off")}
        enc = {p: encode(t) for p, t in texts.items()}
        bins = {p: build_binary(p) for p in ("dev", "release")}
        # 1. translator validation against the real binary
        nvec = 6 if tier == "quick" else 40
        mism = []
        for v in validation_vectors(seed, nvec):
            line = vec_go_line(v)
            white = v.get("white", True)
            armed, budget, _ = eval_encoding(*enc["release"][:2], v)
            queries += 1
            info, panicked, raw = run_go(bins["release"], white, line)
            want = budget if armed else None
            ok = (info == want) and not panicked
            _, _, dpan = eval_encoding(*enc["dev"][:2], v)
            queries += 1
            dinfo, dpanicked, draw = run_go(bins["dev"], white, line)
            ok = ok and (bool(dpan) == bool(dpanicked))
            out["validated"].append({"go": line, "white_to_move": white, "encoding_budget_ms": want, "binary_info_time": info,
                                     "encoding_dev_panics": bool(dpan), "binary_dev_panicked": dpanicked, "agree": ok})
            if not ok:
                mism.append(line)
        if mism:
            raise mir.Inconclusive("encoder validation failed (encoding and real binary disagree) on: %s" % mism[:3])
        # 2. obligations
        for profile in ("dev", "release"):
            decls, it, fn = enc[profile]
            for oid, assertion, kind in obligations(decls, it, profile):
                script = "\n".join(decls) + "\n(assert %s)\n" % assertion
                verdict, model, detail = solve(script, MODEL_VARS)
                queries += 1
                if verdict == "sat":
                    # ask again for a witness a GUI would plausibly send (all values below 2^22 ms = 70 min)
                    small = "".join("(assert (bvult %s (_ bv4194304 64)))\n" % n for n in INPUT_NAMES)
                    v2, m2, d2 = solve(script + small, MODEL_VARS)
                    queries += 1
                    if v2 == "sat":
                        model, rec_small = m2, True
                solver_s += sum(detail.get("solver_s", {}).values())
                rec = {"obligation": oid, "profile": profile, "verdict": {"unsat": "holds", "sat": "counterexample"}.get(verdict, verdict), "solvers": detail.get("verdicts")}
                if verdict == "inconclusive":
                    inconclusive.append(oid)
                if verdict == "sat":
                    line = go_line(model)
                    white = bool(model.get("white_to_move"))
                    info, panicked, raw = run_go(bins[profile], white, line)
                    if kind == "panic":
                        reproduced = panicked
                    elif kind == "clock":
                        clock = model.get("wtime", 0) if white else model.get("btime", 0)
                        reproduced = info is not None and info > clock
                    else:
                        reproduced = info is not None and info > model.get("move_time", 0)
                    rec.update({"go": line, "white_to_move": white, "binary_info_time": info, "binary_panicked": panicked, "reproduced": reproduced})
                    if not reproduced:
                        inconclusive.append(oid + " (counterexample did not reproduce on the real binary)")
                    else:
                        kf = common.match_known(prop, oid, [oid])
                        if kf:
                            known_hits.append((oid, kf, line))
                        else:
                            violations.append((oid, rec))
                out["queries"].append(rec)
        stmts = {p: enc[p][1].statements_seen for p in enc}
    except mir.Inconclusive as e:
        print("UNDECIDED property=C13: %s" % e)
        _write(common, prop, tier, seed, out, assumptions, queries, solver_s, t0, 0, note=str(e))
        return 2

    exit_code = 0
    for oid, kf, line in known_hits:
        print("KNOWN-FINDING: property=C13 %s [%s: `%s`]" % (kf.get("what", ""), oid, line))
    for oid, rec in violations:
        d = os.path.join(common.REPLAY_DIR, prop)
        os.makedirs(d, exist_ok=True)
        path = os.path.join(d, re.sub(r"[^A-Za-z0-9_.-]", "_", oid) + ".json")
        import json
        rec["how_to_replay"] = "printf 'position %s\\n%s\\nquit\\n' | <binary of /repo built in the %s profile>" % (
            "startpos" if rec["white_to_move"] else "fen rnbqkbnr/pppppppp/8/8/8/8/PPPPPPPP/RNBQKBNR b KQkq - 0 1", rec["go"], rec["profile"])
        json.dump(rec, open(path, "w"), indent=1)
        print("VIOLATION property=C13 replay=%s" % path)
        print("  %s: `%s` (side to move: %s) -> info time %s, panicked=%s" % (oid, rec["go"], "white" if rec["white_to_move"] else "black", rec.get("binary_info_time"), rec.get("binary_panicked")))
        exit_code = 1
    if inconclusive and exit_code == 0:
        exit_code = 2
        for i in inconclusive:
            print("UNDECIDED property=C13 obligation=%s" % i)
    _write(common, prop, tier, seed, out, assumptions, queries, solver_s, t0, len(violations), known=[k[0] for k in known_hits], stmts=stmts)
    held = sum(1 for q in out["queries"] if q["verdict"] == "holds")
    print("C13 tier=%s seed=%d: %d/%d obligations hold, %d known, %d violating, %d undecided, %d vectors validated against the real binary, %.0f s"
          % (tier, seed, held, len(out["queries"]), len(known_hits), len(violations), len(inconclusive), len(out["validated"]), time.time() - t0))
    return exit_code


def _write(common, prop, tier, seed, out, assumptions, queries, solver_s, t0, nviol, note="", known=(), stmts=None):
    qs = out["queries"]
    coverage = {
        "evaluations": max(1, queries),
        "distinct_nontrivial": len(qs) + len(out["validated"]),
        "rule": "one evaluation = one SMT query answered by BOTH z3 and cvc5 with the same verdict; distinct non-trivial = distinct proof obligation (panic edge or budget bound per path) plus distinct encoder-validation vector compared with the real binary",
        "samples": (qs[:4] + [q for q in qs if q.get("verdict") != "holds"][:6] + out["validated"][:3]) or [{"note": note}],
        "obligations": len(qs),
        "discharged": sum(1 for q in qs if q["verdict"] == "holds"),
        "traces_validated_against_impl": len(out["validated"]),
        "checker_cmd": "cargo +nightly rustc -- -Zunpretty=mir -C overflow-checks={on,off}; mirsmt/mir.py -> SMT-LIB2 (QF_BV + FP); z3 4.8.12 and cvc5 1.0",
        "trusted_base": ["rustc nightly MIR dump", "mirsmt/mir.py hand models of std calls", "z3, cvc5 (must agree)"],
        "functions_encoded": out["functions"],
        "bounds": "none on the inputs: wtime, btime, winc, binc, movetime range over all 2^64 values each, present or absent, either side to move, infinite on/off; the slice is loop-free",
        "mir_statements_interpreted": stmts or {},
        "solver_time_s": round(solver_s, 2),
        "known_findings_hit": list(known),
        "undecided": note,
        "encoding_source": common.repo_fingerprint(),
        "exhaustive": False,
        "explanation": "symbolic interpretation of the compiler's MIR for the budget arithmetic into SMT-LIB; unsat = no input violates the obligation",
    }
    common.write_evidence(prop, tier, seed, "model_checking", coverage, assumptions, time.time() - t0, nviol)
