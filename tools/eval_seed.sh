#!/bin/sh
# usage: tools/eval_seed.sh <seed-id> <property> [<property> ...]
# Applies seeded/<seed-id>/patch.diff to /repo, runs the quick check of each property, undoes the patch.
id=$1; shift
cd /verif || exit 2
git -C /repo diff --quiet || { echo "/repo is not clean"; exit 2; }
git -C /repo apply /verif/seeded/$id/patch.diff || { echo "patch does not apply"; exit 2; }
mkdir -p seeded/$id/detection
for p in "$@"; do
  s=$(date +%s)
  ./check $p --tier quick > seeded/$id/detection/$p.log 2>&1
  rc=$?
  echo "seed=$id check=$p exit=$rc wall=$(( $(date +%s) - s ))s $(grep -c '^VIOLATION' seeded/$id/detection/$p.log) violation line(s)"
done
git -C /repo checkout -- .
git -C /repo status --short | head -3
