//! C01 lemma L4: the legality filter of the real `Game::get_moves`.
//!
//! The real function runs over an arbitrary consistent board.  Its four callees are replaced
//! by nondeterministic Kani stubs (listed in the evidence):
//!   Piece::get_moves   emits up to MAXM arbitrary symbolic moves (any kind) starting on the
//!                      piece's square and records them;
//!   Game::push / pop   record which emitted move is currently played, move the cached king
//!                      square for king moves, and check the push/pop protocol;
//!   Game::is_targeted  answers from a symbolic table ATT[i] ("own king attacked after move i")
//!                      and a symbolic ROOT_CHECK, and checks that it is asked about the
//!                      mover's colour and the mover's CURRENT king square.
//! Assumed (proved separately as the chess fact L3, h_filter::l3_*): if the king is not attacked
//! and a non-king piece moves from a square that shares no row, column or diagonal with it,
//! the king is not attacked afterwards.
//! Asserted: with verification the result is exactly the emitted sequence without the moves
//! that leave the king attacked, in order; without it, the emitted sequence; nothing is
//! left pushed; stale buffer content is dropped; no moves when the mover's king is missing.

#[cfg(not(kani))]
use crate::shim as kani;
use crate::chess::move_struct::Move;
use crate::chess::verif_hooks::{GameState, Piece, PieceType, Position};
use crate::chess::{Game, Player};
use crate::glue::*;
use crate::h_push::{any_board, any_pos, any_square};
use crate::spec::{self, Pos, MK};
use arrayvec::ArrayVec;

pub const MAXM: usize = 4;
/// moves the stubbed generator may emit in this harness (<= MAXM); the quick tier uses 2
static mut EMIT_LIMIT: usize = MAXM;

static mut EMITTED: [Option<Move>; MAXM] = [None; MAXM];
static mut N_EMITTED: usize = 0;
static mut ATT: [bool; MAXM] = [false; MAXM];
static mut ROOT_CHECK: bool = false;
static mut ROOT_KING: usize = 0;
static mut ROOT_WHITE: bool = true;
static mut PUSHED: Option<usize> = None;
static mut PROTOCOL_OK: bool = true;
static mut ASKED_OK: bool = true;
static mut PUSHES: usize = 0;

fn aligned(a: usize, b: usize) -> bool {
    let dr = spec::row(a) - spec::row(b);
    let dc = spec::col(a) - spec::col(b);
    dr == 0 || dc == 0 || dr == dc || dr == -dc
}

/// The square the mover's king stands on after the move.
fn king_square_after(m: &Move, root_king: usize) -> usize {
    match *m {
        Move::Normal { piece, end, .. } => {
            if kind_code(piece.piece_type) == spec::KING {
                square(end)
            } else {
                root_king
            }
        }
        Move::CastlingShort { .. } => root_king + 2,
        Move::CastlingLong { .. } => root_king - 2,
        _ => root_king,
    }
}

fn any_move_from(_piece: Piece, _pos: Position, white: bool) -> Move {
    // The filter looks only at the moves, never at where the generating piece stands: the stub
    // emits moves with an arbitrary start square and an arbitrary moving piece of the mover's
    // colour (a king move starts on the king's square, as in any real generation).
    let owner = player(white);
    let mover: u8 = kani::any();
    kani::assume(mover >= 1 && mover <= 12 && spec::is_black(mover) != white);
    let piece = code_piece(mover).unwrap();
    let from = any_square();
    let pos = position(from);
    if spec::kind_of(mover) == spec::KING {
        kani::assume(from == unsafe { ROOT_KING });
    }
    let kind: u8 = kani::any();
    let to = any_square();
    let cap: u8 = kani::any();
    kani::assume(cap <= 12);
    kani::assume(cap == spec::EMPTY || spec::is_black(cap) == white);
    match kind {
        0 => Move::Promotion {
            owner,
            new_piece: code_kind({
                let np: u8 = kani::any();
                kani::assume(np <= spec::KNIGHT);
                np
            }),
            start: pos,
            end: position(to),
            captured_piece: code_piece(cap),
        },
        1 => Move::EnPassant { owner, start_col: pos.col(), end_col: (to % 8) as i8 },
        2 => {
            kani::assume(kind_code(piece.piece_type) == spec::KING);
            Move::CastlingShort { owner }
        }
        3 => {
            kani::assume(kind_code(piece.piece_type) == spec::KING);
            Move::CastlingLong { owner }
        }
        _ => {
            kani::assume(to != square(pos));
            Move::Normal { piece, start: pos, end: position(to), captured_piece: code_piece(cap) }
        }
    }
}

pub fn stub_get_moves<F: FnMut(Move)>(piece: Piece, mut push: F, _game: &Game, pos: Position) {
    unsafe {
        let mut k = 0;
        while k < 2 {
            let emit: bool = kani::any();
            if emit && N_EMITTED < EMIT_LIMIT {
                let m = any_move_from(piece, pos, ROOT_WHITE);
                // the generator emits no move twice (lemma L2)
                let mut j = 0;
                while j < MAXM {
                    if j < N_EMITTED {
                        kani::assume(EMITTED[j] != Some(m));
                    }
                    j += 1;
                }
                // chess fact L3
                if let Move::Normal { piece, start, .. } = m {
                    if !ROOT_CHECK && kind_code(piece.piece_type) != spec::KING && !aligned(square(start), ROOT_KING) {
                        kani::assume(!ATT[N_EMITTED]);
                    }
                }
                EMITTED[N_EMITTED] = Some(m);
                N_EMITTED += 1;
                push(m);
            }
            k += 1;
        }
    }
}

fn index_of(m: Move) -> usize {
    unsafe {
        let mut j = 0;
        while j < MAXM {
            if j < N_EMITTED && EMITTED[j] == Some(m) {
                return j;
            }
            j += 1;
        }
    }
    MAXM
}

pub fn stub_push(game: &mut Game, m: Move) {
    unsafe {
        let i = index_of(m);
        if PUSHED.is_some() || i == MAXM {
            PROTOCOL_OK = false;
        }
        PUSHED = Some(i);
        PUSHES += 1;
        if i < MAXM {
            game.verif_set_king_position(player(ROOT_WHITE), position(king_square_after(&m, ROOT_KING)));
        }
    }
}

pub fn stub_pop(game: &mut Game, m: Move) {
    unsafe {
        let i = index_of(m);
        if PUSHED != Some(i) || i == MAXM {
            PROTOCOL_OK = false;
        }
        PUSHED = None;
        game.verif_set_king_position(player(ROOT_WHITE), position(ROOT_KING));
    }
}

pub fn stub_is_targeted(_game: &Game, pos: Position, who: Player) -> bool {
    unsafe {
        if who != player(ROOT_WHITE) {
            ASKED_OK = false;
        }
        match PUSHED {
            None => {
                if square(pos) != ROOT_KING {
                    ASKED_OK = false;
                }
                ROOT_CHECK
            }
            Some(i) => {
                if i < MAXM {
                    if let Some(m) = EMITTED[i] {
                        if square(pos) != king_square_after(&m, ROOT_KING) {
                            ASKED_OK = false;
                        }
                    }
                    ATT[i]
                } else {
                    kani::any()
                }
            }
        }
    }
}

pub fn filter_body(king: usize, verify: bool, king_missing: bool, witness: bool) {
    filter_body_n(king, verify, king_missing, witness, MAXM)
}

pub fn filter_body_n(king: usize, verify: bool, king_missing: bool, witness: bool, limit: usize) {
    unsafe {
        EMIT_LIMIT = limit;
    }
    // Sparse concrete board: the mover's king on `king`, one more piece of the mover, the
    // enemy king far away.  What the filter sees of the position beyond that comes through
    // the stubs (symbolic moves, symbolic attack answers).
    let white: bool = kani::any();
    let mut board = [spec::EMPTY; 64];
    board[king] = spec::code(spec::KING, !white);
    let other_sq = if king == 9 { 10 } else { 9 };
    board[other_sq] = spec::code(spec::KNIGHT, !white);
    let enemy_king = if king >= 32 { 7 } else { 63 };
    board[enemy_king] = spec::code(spec::KING, white);
    let mut p = Pos { board, white_to_move: white, castle: [false; 4], ep: 8 };
    let mut game = build_game(&p, 0, 0, false, 1, 0);
    if king_missing {
        // an unchecked line may capture the king: the cached square then holds something else
        p.board[king] = spec::code(spec::QUEEN, white);
        game = build_game(&p, 0, 0, false, 1, 0);
        game.verif_set_king_position(player(white), position(king));
    }
    unsafe {
        N_EMITTED = 0;
        PUSHED = None;
        PROTOCOL_OK = true;
        ASKED_OK = true;
        PUSHES = 0;
        ROOT_KING = king;
        ROOT_WHITE = white;
        ROOT_CHECK = kani::any();
        let mut i = 0;
        while i < MAXM {
            ATT[i] = kani::any();
            EMITTED[i] = None;
            i += 1;
        }
    }
    let mut moves: ArrayVec<Move, 256> = ArrayVec::new();
    // stale content from an earlier call
    moves.push(Move::CastlingShort { owner: Player::White });
    moves.push(Move::CastlingLong { owner: Player::Black });

    game.get_moves(&mut moves, verify);

    unsafe {
        if king_missing {
            assert!(moves.is_empty(), "[C01] moves are offered although the mover's king is gone");
        } else {
            let mut want: [Option<Move>; MAXM] = [None; MAXM];
            let mut n = 0;
            let mut i = 0;
            while i < MAXM {
                if i < N_EMITTED && (!verify || !ATT[i]) {
                    want[n] = EMITTED[i];
                    n += 1;
                }
                i += 1;
            }
            assert!(moves.len() == n, "[C01] checked list has the wrong number of moves (a legal move dropped or an illegal one kept)");
            let mut i = 0;
            while i < MAXM {
                if i < n {
                    assert!(Some(moves[i]) == want[i], "[C01] checked list is not the generated list without the moves that leave the king attacked");
                }
                i += 1;
            }
            assert!(PROTOCOL_OK, "[C01] filter plays a move it did not take back, or takes back another move");
            assert!(PUSHED.is_none(), "[C03] the move list query leaves a move played");
            assert!(ASKED_OK, "[C01] filter asks about the wrong square or colour when testing for check");
            assert!(square(game.get_king_position(player(white))) == king, "[C03] the move list query changes the cached king square");
            if !verify {
                assert!(PUSHES == 0, "[C01] unchecked generation plays moves");
            }
        }
    }
    if witness {
        unsafe {
            kani::assume(N_EMITTED >= 2 && PUSHES >= 1);
        }
        assert!(false, "[witness] end of harness reached");
    }
    std::mem::forget(game);
}

/// Chess fact L3 (spec level, no engine code): own king on a concrete square and not attacked;
/// a non-king piece of the same side moves from any square not aligned with the king to any
/// square not holding an own piece; afterwards the king is still not attacked.
pub fn l3_body(king: usize) {
    let mut board = any_board();
    let white: bool = kani::any();
    board[king] = spec::code(spec::KING, !white);
    kani::assume(!spec::attacked(&board, king, !white));
    let from = any_square();
    let to = any_square();
    kani::assume(from != to && from != king && to != king);
    kani::assume(spec::owned_by(board[from], white) && spec::kind_of(board[from]) != spec::KING);
    kani::assume(!spec::owned_by(board[to], white));
    kani::assume(!aligned(from, king));
    let mover = board[from];
    // promotion does not matter: whatever stands on `to` afterwards is the mover's
    let mut after = board;
    let mut r = 0;
    while r < 8 {
        let mut c = 0;
        while c < 8 {
            let i = r * 8 + c;
            if i == from {
                after[i] = spec::EMPTY;
            } else if i == to {
                after[i] = mover;
            }
            c += 1;
        }
        r += 1;
    }
    assert!(!spec::attacked(&after, king, !white), "[L3] moving a piece that is not aligned with the king exposed the king");
}

macro_rules! f_instance {
    ($name:ident, $king:expr, $verify:expr, $missing:expr, $witness:expr) => {
        #[cfg_attr(kani, kani::proof)]
        #[cfg_attr(kani, kani::unwind(9))]
        #[cfg_attr(kani, kani::stub(crate::chess::verif_hooks::Piece::get_moves, stub_get_moves))]
        #[cfg_attr(kani, kani::stub(crate::chess::Game::push, stub_push))]
        #[cfg_attr(kani, kani::stub(crate::chess::Game::pop, stub_pop))]
        #[cfg_attr(kani, kani::stub(crate::chess::Game::is_targeted, stub_is_targeted))]
        pub fn $name() {
            filter_body($king, $verify, $missing, $witness)
        }
    };
}

f_instance!(c01_filter_checked_e1, 4, true, false, false);
f_instance!(c01_filter_checked_d4, 27, true, false, false);
f_instance!(c01_filter_checked_h8, 63, true, false, false);
f_instance!(c01_filter_checked_a5, 32, true, false, false);
f_instance!(c01_filter_unchecked_d4, 27, false, false, false);
f_instance!(c01_filter_king_missing_d4, 27, true, true, false);
f_instance!(c01_filter_witness, 27, true, false, true);

macro_rules! f2_instance {
    ($name:ident, $king:expr, $witness:expr) => {
        #[cfg_attr(kani, kani::proof)]
        #[cfg_attr(kani, kani::unwind(9))]
        #[cfg_attr(kani, kani::stub(crate::chess::verif_hooks::Piece::get_moves, stub_get_moves))]
        #[cfg_attr(kani, kani::stub(crate::chess::Game::push, stub_push))]
        #[cfg_attr(kani, kani::stub(crate::chess::Game::pop, stub_pop))]
        #[cfg_attr(kani, kani::stub(crate::chess::Game::is_targeted, stub_is_targeted))]
        pub fn $name() {
            filter_body_n($king, true, false, $witness, 2)
        }
    };
}

f2_instance!(c01_filter2_checked_d4, 27, false);
f2_instance!(c01_filter2_checked_e1, 4, false);
f2_instance!(c01_filter2_witness, 27, true);

macro_rules! l3_instance {
    ($name:ident, $sq:expr) => {
        #[cfg_attr(kani, kani::proof)]
        #[cfg_attr(kani, kani::unwind(9))]
        pub fn $name() {
            l3_body($sq)
        }
    };
}

include!("gen_l3.rs");
