//! Conversions between the repository's types and the spec's encoding, and construction of
//! arbitrary `Game` values through the cfg-guarded hook.  No rule of chess lives here.

use crate::chess::move_struct::Move;
use crate::chess::verif_hooks::{scores, GameState, Parts, Piece, PieceType, Position};
use crate::chess::{Game, GamePhase, Player};
use crate::spec::{self, Pos, MK};

pub fn kind_code(pt: PieceType) -> u8 {
    match pt {
        PieceType::Queen => spec::QUEEN,
        PieceType::Rook => spec::ROOK,
        PieceType::Bishop => spec::BISHOP,
        PieceType::Knight => spec::KNIGHT,
        PieceType::Pawn => spec::PAWN,
        PieceType::King => spec::KING,
    }
}

pub fn code_kind(k: u8) -> PieceType {
    match k {
        spec::QUEEN => PieceType::Queen,
        spec::ROOK => PieceType::Rook,
        spec::BISHOP => PieceType::Bishop,
        spec::KNIGHT => PieceType::Knight,
        spec::PAWN => PieceType::Pawn,
        _ => PieceType::King,
    }
}

pub fn piece_code(p: Option<Piece>) -> u8 {
    match p {
        None => spec::EMPTY,
        Some(p) => spec::code(kind_code(p.piece_type), p.owner == Player::Black),
    }
}

pub fn code_piece(c: u8) -> Option<Piece> {
    if c == spec::EMPTY {
        None
    } else {
        Some(Piece {
            piece_type: code_kind(spec::kind_of(c)),
            owner: if spec::is_black(c) { Player::Black } else { Player::White },
        })
    }
}

pub fn player(white: bool) -> Player {
    if white {
        Player::White
    } else {
        Player::Black
    }
}

pub fn position(sq: usize) -> Position {
    Position::new((sq / 8) as i8, (sq % 8) as i8).unwrap()
}

pub fn square(p: Position) -> usize {
    (p.row() as usize) * 8 + p.col() as usize
}

pub fn tables(endgame: bool) -> [&'static [i16; 64]; 6] {
    [
        &scores::QUEEN_SCORES,
        &scores::ROOK_SCORES,
        &scores::BISHOP_SCORES,
        &scores::KNIGHT_SCORES,
        &scores::PAWN_SCORES,
        if endgame { &scores::KING_SCORES_END } else { &scores::KING_SCORES_MIDDLE },
    ]
}

/// What the real game currently is, in the spec's terms (read through the hook accessors,
/// never through the engine's own exporters).
pub fn spec_pos(game: &Game) -> Pos {
    let mut board = [spec::EMPTY; 64];
    let real = game.verif_board();
    let mut r = 0;
    while r < 8 {
        let mut c = 0;
        while c < 8 {
            board[r * 8 + c] = piece_code(real[r * 8 + c]);
            c += 1;
        }
        r += 1;
    }
    let bits = game.verif_state_at(game.len() - 1).verif_bits();
    Pos {
        board,
        white_to_move: game.player() == Player::White,
        castle: [bits & 16 != 0, bits & 32 != 0, bits & 64 != 0, bits & 128 != 0],
        ep: bits & 15,
    }
}

/// Builds a `Game` whose observable position is `p`, with caches that satisfy the
/// representation invariant (filled by direct indexing of the spec's tables), the given
/// running hash / score, `nstates` entries on the state stack (the last one describes `p`,
/// earlier ones are `filler`), and an empty move record.
pub fn build_game(p: &Pos, hash: u64, score: i16, endgame_table: bool, nstates: usize, filler: u8) -> Game {
    let t = tables(endgame_table);
    let mut board = [None; 64];
    let mut past_scores = [0i16; 64];
    let mut past_hashes = [0u64; 64];
    let mut r = 0;
    while r < 8 {
        let mut c = 0;
        while c < 8 {
            let sq = r * 8 + c;
            board[sq] = code_piece(p.board[sq]);
            past_scores[sq] = spec::pst(&t, p.board[sq], sq);
            past_hashes[sq] = spec::KEY_SQUARE[sq][p.board[sq] as usize];
            c += 1;
        }
        r += 1;
    }
    let wk = spec::king_square(&p.board, true);
    let bk = spec::king_square(&p.board, false);
    let parts = Parts {
        board,
        past_scores,
        past_hashes,
        score,
        hash,
        current_player: player(p.white_to_move),
        king_positions: [position(if wk < 64 { wk } else { 0 }), position(if bk < 64 { bk } else { 0 })],
        endgame_king_table: endgame_table,
        phase: if endgame_table { GamePhase::Endgame } else { GamePhase::Opening },
    };
    let mut states = [GameState::verif_from_bits(filler); 8];
    let n = if nstates == 0 || nstates > 8 { 1 } else { nstates };
    states[n - 1] = GameState::verif_from_bits(spec::state_byte(&p.castle, p.ep));
    Game::verif_from_parts(parts, &states[..n], Vec::new())
}

/// The representation invariant R2 (per-square caches agree with the board under the tables
/// currently installed) and R3 (king cache), checked on a real game.
pub fn rep_holds(game: &Game) -> bool {
    let real = game.verif_board();
    let t = game.verif_piece_score_tables();
    let ph = game.verif_past_hashes();
    let ps = game.verif_past_scores();
    let mut ok = true;
    let mut r = 0;
    while r < 8 {
        let mut c = 0;
        while c < 8 {
            let sq = r * 8 + c;
            let code = piece_code(real[sq]);
            ok &= ph[sq] == spec::KEY_SQUARE[sq][code as usize];
            ok &= ps[sq] == spec::pst(&t, code, sq);
            c += 1;
        }
        r += 1;
    }
    ok
}

/// A real `Move` described in the spec's terms: (from, to, kind).
pub fn spec_move(m: &Move) -> (usize, usize, MK) {
    match *m {
        Move::Normal { start, end, .. } => (square(start), square(end), MK::Normal),
        Move::Promotion { start, end, new_piece, .. } => (square(start), square(end), MK::Promo(kind_code(new_piece))),
        Move::CastlingShort { owner } => {
            let h = if owner == Player::White { 4 } else { 60 };
            (h, h + 2, MK::CastleShort)
        }
        Move::CastlingLong { owner } => {
            let h = if owner == Player::White { 4 } else { 60 };
            (h, h - 2, MK::CastleLong)
        }
        Move::EnPassant { owner, start_col, end_col } => {
            let (fr, tr) = if owner == Player::White { (4, 5) } else { (3, 2) };
            (fr * 8 + start_col as usize, tr * 8 + end_col as usize, MK::EnPassant)
        }
    }
}

/// The real `Move` value the engine is expected to use for a spec move in position `p`.
pub fn real_move(p: &Pos, from: usize, to: usize, mk: MK) -> Move {
    let owner = player(p.white_to_move);
    match mk {
        MK::Normal => Move::Normal {
            piece: code_piece(p.board[from]).unwrap(),
            start: position(from),
            end: position(to),
            captured_piece: code_piece(p.board[to]),
        },
        MK::Promo(np) => Move::Promotion {
            owner,
            new_piece: code_kind(np),
            start: position(from),
            end: position(to),
            captured_piece: code_piece(p.board[to]),
        },
        MK::EnPassant => Move::EnPassant {
            owner,
            start_col: (from % 8) as i8,
            end_col: (to % 8) as i8,
        },
        MK::CastleShort => Move::CastlingShort { owner },
        MK::CastleLong => Move::CastlingLong { owner },
    }
}
