//! Harness family P(kind, squares, group): ONE step of the real `Game::push` (and `Game::pop`)
//! from an arbitrary state.  The squares of the move are CONCRETE per instance (measured:
//! symbolic squares make push/pop intractable), everything else is symbolic: which of the
//! mover's pieces stands on the start square, what is captured, the side to move.
//!
//! The pre-state is any board (13^64 contents), either side to move, any castling rights and
//! e.p. file consistent with the board, any running hash, any running score within
//! SCORE_BOUND, either king table, under the representation invariant.  The move is any value
//! of its kind that is *shape-valid* for the position (moving piece = content of the start
//! square and owned by the mover, captured piece = content of the end square and not the
//! mover's; pawn moves are geometrically valid pawn moves; promotions go from the seventh
//! to the eighth rank; e.p. and castling with the board pattern the generator guarantees).
//! Geometric validity is deliberately NOT assumed: the successor / undo / hash / score laws are
//! proved for a superset of what the generator can produce (C01 proves the generator's moves
//! are shape-valid), so they hold for every generated move, checked or unchecked, including
//! captures of a king.
//!
//! One inductive step from an arbitrary state replaces exploration of move sequences: each
//! group re-establishes the invariants it assumed.

#[cfg(not(kani))]
use crate::shim as kani;
use crate::chess::move_struct::Move;
use crate::chess::verif_hooks::{GameState, Piece, PieceType, Position};
use crate::chess::{Game, Player};
use crate::glue::*;
use crate::h_k::{SCORE_BOUND, SUCC, UNDO, HASH, SCORE, SAFE, WITNESS};
use crate::spec::{self, Pos, MK};

pub const M_NORMAL: u8 = 0;
pub const M_PROMO: u8 = 1;
pub const M_EP: u8 = 2;
pub const M_CASTLE_SHORT: u8 = 3;
pub const M_CASTLE_LONG: u8 = 4;

pub fn any_board() -> [u8; 64] {
    let mut board = [spec::EMPTY; 64];
    let mut r = 0;
    while r < 8 {
        let mut c = 0;
        while c < 8 {
            let x: u8 = kani::any();
            kani::assume(x <= 12);
            board[r * 8 + c] = x;
            c += 1;
        }
        r += 1;
    }
    board
}

pub fn any_pos() -> Pos {
    let p = Pos {
        board: any_board(),
        white_to_move: kani::any(),
        castle: [kani::any(), kani::any(), kani::any(), kani::any()],
        ep: kani::any(),
    };
    kani::assume(spec::consistent(&p));
    p
}

pub fn any_square() -> usize {
    let s: usize = kani::any();
    kani::assume(s < 64);
    s
}

/// An arbitrary shape-valid move of kind MKIND in position p between the given squares
/// (for promotions / e.p. A and B are the start and end files): (from, to, spec kind).
pub fn any_shape_valid_move(mkind: u8, a: usize, b: usize, p: &Pos) -> (usize, usize, MK) {
    let w = p.white_to_move;
    let home = if w { 4 } else { 60 };
    match mkind {
        M_NORMAL => {
            kani::assume(spec::owned_by(p.board[a], w));
            kani::assume(!spec::owned_by(p.board[b], w));
            if spec::kind_of(p.board[a]) == spec::PAWN {
                kani::assume(spec::pseudo(p, a, b, MK::Normal));
            }
            // the generator never lets a king step next to (or onto) the enemy king
            kani::assume(!(spec::kind_of(p.board[a]) == spec::KING && spec::kind_of_or(p.board[b], 99) == spec::KING));
            (a, b, MK::Normal)
        }
        M_PROMO => {
            let (from, to) = if w { (48 + a, 56 + b) } else { (8 + a, b) };
            kani::assume(p.board[from] == spec::code(spec::PAWN, !w));
            kani::assume(!spec::owned_by(p.board[to], w));
            let np: u8 = kani::any();
            kani::assume(np <= spec::KNIGHT);
            (from, to, MK::Promo(np))
        }
        M_EP => {
            let (fr, tr) = if w { (4, 5) } else { (3, 2) };
            let from = fr * 8 + a;
            let to = tr * 8 + b;
            kani::assume(p.ep as usize == b);
            kani::assume(p.board[from] == spec::code(spec::PAWN, !w));
            kani::assume(p.board[fr * 8 + b] == spec::code(spec::PAWN, w));
            kani::assume(p.board[to] == spec::EMPTY);
            (from, to, MK::EnPassant)
        }
        M_CASTLE_SHORT => {
            kani::assume(p.board[home] == spec::code(spec::KING, !w));
            kani::assume(p.board[home + 3] == spec::code(spec::ROOK, !w));
            kani::assume(p.board[home + 1] == spec::EMPTY && p.board[home + 2] == spec::EMPTY);
            (home, home + 2, MK::CastleShort)
        }
        _ => {
            kani::assume(p.board[home] == spec::code(spec::KING, !w));
            kani::assume(p.board[home - 4] == spec::code(spec::ROOK, !w));
            kani::assume(
                p.board[home - 1] == spec::EMPTY && p.board[home - 2] == spec::EMPTY && p.board[home - 3] == spec::EMPTY,
            );
            (home, home - 2, MK::CastleLong)
        }
    }
}

fn same_arrays(a: &Game, b: &Game) -> bool {
    let (ba, bb) = (a.verif_board(), b.verif_board());
    let (ha, hb) = (a.verif_past_hashes(), b.verif_past_hashes());
    let (sa, sb) = (a.verif_past_scores(), b.verif_past_scores());
    let mut ok = true;
    let mut r = 0;
    while r < 8 {
        let mut c = 0;
        while c < 8 {
            let i = r * 8 + c;
            ok &= piece_code(ba[i]) == piece_code(bb[i]);
            ok &= ha[i] == hb[i];
            ok &= sa[i] == sb[i];
            c += 1;
        }
        r += 1;
    }
    ok
}

pub fn p_body(mkind: u8, a: usize, b: usize, group: u8) {
    #[allow(non_snake_case)]
    let G = group;
    let p = any_pos();
    let hash: u64 = kani::any();
    let score: i16 = kani::any();
    kani::assume(score >= -SCORE_BOUND && score <= SCORE_BOUND);
    let endgame: bool = kani::any();
    let filler: u8 = kani::any();
    let (from, to, mk) = any_shape_valid_move(mkind, a, b, &p);
    let m = real_move(&p, from, to, mk);
    let mut game = build_game(&p, hash, score, endgame, 2, filler);
    let tables = tables(endgame);

    let before = if G == UNDO { Some(game.clone()) } else { None };
    let len_before = game.len();

    game.push(m);

    if G == SUCC {
        let want = spec::apply(&p, from, to, mk);
        let got = spec_pos(&game);
        let mut r = 0;
        while r < 8 {
            let mut c = 0;
            while c < 8 {
                assert!(got.board[r * 8 + c] == want.board[r * 8 + c], "[C02] wrong piece placement after the move");
                c += 1;
            }
            r += 1;
        }
        assert!(got.white_to_move == want.white_to_move, "[C02] wrong side to move after the move");
        assert!(game.len() == len_before + 1, "[C02] the per-ply state stack did not grow by one");
        // a move that captures a king (unchecked list only) ends the line: the rules say nothing
        // about rights afterwards
        let captured_king = spec::kind_of_or(p.board[to], 99) == spec::KING;
        if captured_king {
            std::mem::forget(game);
            return;
        }
        assert!(got.castle[0] == want.castle[0], "[C02] wrong white king-side castling right after the move");
        assert!(got.castle[1] == want.castle[1], "[C02] wrong white queen-side castling right after the move");
        assert!(got.castle[2] == want.castle[2], "[C02] wrong black king-side castling right after the move");
        assert!(got.castle[3] == want.castle[3], "[C02] wrong black queen-side castling right after the move");
        assert!(got.ep == want.ep, "[C02] wrong en-passant file after the move");
        {
            // induction: the quantifier domain and the cached king squares are re-established
            assert!(spec::consistent(&got), "[C02] successor position is not consistent (rights / e.p. / kings)");
            let kp = game.verif_king_positions();
            assert!(square(kp[0]) == spec::king_square(&got.board, true), "[C02] cached white king square is stale");
            assert!(square(kp[1]) == spec::king_square(&got.board, false), "[C02] cached black king square is stale");
        }
    }
    if G == HASH || G == SCORE {
        // Delta form over the squares this move kind may change (all other squares are asserted
        // untouched), so the solver never sees a 64-term XOR / sum.
        let after = spec_pos(&game);
        let (changed, nchanged): ([usize; 4], usize) = match mk {
            MK::Normal | MK::Promo(_) => ([from, to, 0, 0], 2),
            MK::EnPassant => ([from, to, (from / 8) * 8 + to % 8, 0], 3),
            MK::CastleShort => ([from, to, from + 1, from + 3], 4),
            MK::CastleLong => ([from, to, from - 1, from - 4], 4),
        };
        let is_changed = |i: usize| {
            let mut hit = false;
            let mut k = 0;
            while k < 4 {
                hit |= k < nchanged && changed[k] == i;
                k += 1;
            }
            hit
        };
        let ph = game.verif_past_hashes();
        let ps = game.verif_past_scores();
        let mut untouched_ok = true;
        let mut cache_ok = true;
        let mut r = 0;
        while r < 8 {
            let mut c = 0;
            while c < 8 {
                let i = r * 8 + c;
                if !is_changed(i) {
                    untouched_ok &= after.board[i] == p.board[i];
                }
                if G == HASH {
                    cache_ok &= ph[i] == spec::KEY_SQUARE[i][after.board[i] as usize];
                } else {
                    cache_ok &= ps[i] == spec::pst(&tables, after.board[i], i);
                }
                c += 1;
            }
            r += 1;
        }
        if G == HASH {
            assert!(untouched_ok, "[C04] a square the move does not involve changed");
            assert!(cache_ok, "[C04] per-square hash cache does not match the board after the move");
            let mut want = hash ^ spec::KEY_BLACK_TO_MOVE
                ^ spec::KEY_STATE[spec::state_byte(&p.castle, p.ep) as usize]
                ^ spec::KEY_STATE[spec::state_byte(&after.castle, after.ep) as usize];
            let mut k = 0;
            while k < 4 {
                if k < nchanged {
                    let i = changed[k];
                    want ^= spec::KEY_SQUARE[i][p.board[i] as usize] ^ spec::KEY_SQUARE[i][after.board[i] as usize];
                }
                k += 1;
            }
            assert!(game.hash() == want, "[C04] hash is not a function of the position after the move");
        } else {
            assert!(untouched_ok, "[C16] a square the move does not involve changed");
            assert!(cache_ok, "[C16] per-square score cache does not match the board after the move");
            let mut want = score;
            let mut k = 0;
            while k < 4 {
                if k < nchanged {
                    let i = changed[k];
                    want = want.wrapping_sub(spec::pst(&tables, p.board[i], i)).wrapping_add(spec::pst(&tables, after.board[i], i));
                }
                k += 1;
            }
            assert!(game.score() == want, "[C16] score is not the piece-square sum after the move");
        }
    }
    if G == UNDO || G == SAFE || G == WITNESS {
        game.pop(m);
    }
    if G == UNDO {
        let b = before.as_ref().unwrap();
        assert!(same_arrays(&game, b), "[C03] board or per-square caches differ after take-back");
        assert!(game.hash() == hash, "[C03] hash differs after take-back");
        assert!(game.score() == score, "[C03] score differs after take-back");
        assert!(game.player() == b.player(), "[C03] side to move differs after take-back");
        assert!(game.len() == len_before, "[C03] game length differs after take-back");
        assert!(
            game.verif_state_at(game.len() - 1).verif_bits() == spec::state_byte(&p.castle, p.ep),
            "[C03] castling rights / e.p. file differ after take-back"
        );
        let (ka, kb) = (game.verif_king_positions(), b.verif_king_positions());
        assert!(ka[0] == kb[0] && ka[1] == kb[1], "[C03] cached king squares differ after take-back");
    }
    if G == WITNESS {
        assert!(false, "[witness] end of harness reached");
    }
    std::mem::forget(before);
    std::mem::forget(game);
}

macro_rules! p_instance {
    ($name:ident, $mk:expr, $a:expr, $b:expr, $g:expr) => {
        #[cfg_attr(kani, kani::proof)]
        #[cfg_attr(kani, kani::unwind(9))]
        pub fn $name() {
            p_body($mk, $a, $b, $g)
        }
    };
}

include!("gen_p.rs");
