//! Native stand-in for the few `kani::` functions the harnesses use, for REPLAY only:
//! a counterexample found by the solver is a list of byte vectors (one per `kani::any()`
//! call, in execution order, little endian); the replay binary feeds them back so that the
//! same harness body runs natively against the real code.
use std::cell::RefCell;

thread_local! {
    static VALUES: RefCell<(Vec<Vec<u8>>, usize)> = RefCell::new((Vec::new(), 0));
}

pub fn load(values: Vec<Vec<u8>>) {
    VALUES.with(|v| *v.borrow_mut() = (values, 0));
}

pub fn consumed() -> (usize, usize) {
    VALUES.with(|v| {
        let v = v.borrow();
        (v.1, v.0.len())
    })
}

fn next(n: usize) -> [u8; 8] {
    VALUES.with(|v| {
        let mut v = v.borrow_mut();
        let i = v.1;
        v.1 += 1;
        let mut out = [0u8; 8];
        if i < v.0.len() {
            let bytes = &v.0[i];
            if bytes.len() != n {
                eprintln!("REPLAY-MISMATCH: value {} has {} bytes, harness asks for {}", i, bytes.len(), n);
                std::process::exit(4);
            }
            out[..n].copy_from_slice(bytes);
        } else {
            eprintln!("REPLAY-MISMATCH: harness asks for more values than the counterexample holds");
            std::process::exit(4);
        }
        out
    })
}

pub trait Arbitrary {
    fn any() -> Self;
}
impl Arbitrary for u8 {
    fn any() -> Self {
        next(1)[0]
    }
}
impl Arbitrary for i8 {
    fn any() -> Self {
        next(1)[0] as i8
    }
}
impl Arbitrary for bool {
    fn any() -> Self {
        next(1)[0] & 1 == 1
    }
}
impl Arbitrary for u16 {
    fn any() -> Self {
        let b = next(2);
        u16::from_le_bytes([b[0], b[1]])
    }
}
impl Arbitrary for i16 {
    fn any() -> Self {
        let b = next(2);
        i16::from_le_bytes([b[0], b[1]])
    }
}
impl Arbitrary for u32 {
    fn any() -> Self {
        let b = next(4);
        u32::from_le_bytes([b[0], b[1], b[2], b[3]])
    }
}
impl Arbitrary for u64 {
    fn any() -> Self {
        u64::from_le_bytes(next(8))
    }
}
impl Arbitrary for usize {
    fn any() -> Self {
        u64::from_le_bytes(next(8)) as usize
    }
}

pub fn any<T: Arbitrary>() -> T {
    T::any()
}

/// A counterexample always satisfies the harness's assumptions; if one does not, the replay
/// does not correspond to the solver's model and is reported as such.
pub fn assume(cond: bool) {
    if !cond {
        eprintln!("REPLAY-ASSUMPTION-FAILED");
        std::process::exit(3);
    }
}
