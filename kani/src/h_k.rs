//! Harness family K(sq, kind, side): one piece of the side to move on a concrete square,
//! everything else about the position symbolic (all 13 contents on the other 63 squares,
//! castling rights, e.p. file, running hash and score, king table) under the representation
//! invariant and the consistency part of "sane".  The real `Piece::get_moves` runs with a
//! closure that examines each move at the point where it is emitted (its destination is
//! then a concrete square), and, depending on the assertion group, plays it on a copy with
//! the real `Game::push` / `Game::pop`.
//!
//! Group (const G):
//!   GEN   C01  emitted moves = geometrically valid moves, right fields, no repeats
//!   SUCC  C02  successor equals spec::apply; consistency and invariants re-established
//!   UNDO  C03  push then pop restores every field
//!   HASH  C04  hash ^ spec::hash(position) is unchanged by push (so hash = f(position))
//!   SCORE C16  score - spec::score(board) is unchanged by push; caches re-established
//!   TEXT  C12  from_uci_notation(uci_notation(m)) == m and the text is the spec's
//!   SAFE  C15  nothing asserted beyond Kani's own memory-safety / bounds / panic checks

#[cfg(not(kani))]
use crate::shim as kani;
use crate::chess::move_struct::Move;
use crate::chess::verif_hooks::{GameState, Piece, PieceType, Position};
use crate::chess::{Game, Player};
use crate::glue::*;
use crate::spec::{self, Pos, MK};

pub const GEN: u8 = 0;
pub const SUCC: u8 = 1;
pub const UNDO: u8 = 2;
pub const HASH: u8 = 3;
pub const SCORE: u8 = 4;
pub const TEXT: u8 = 5;
pub const SAFE: u8 = 6;
/// vacuity witness: the harness must reach its end, so this group ends in `assert!(false)`
pub const WITNESS: u8 = 7;

/// Largest |running score| admitted: king (<= 20040) + 9 queens + 2 rooks + 2 bishops +
/// 2 knights on their best squares is 30585 per side; the difference of two such sides
/// with both kings present stays below 11000.
pub const SCORE_BOUND: i16 = 11000;

pub fn any_pos_with(sq: usize, content: u8, white_to_move: bool) -> Pos {
    let mut board = [spec::EMPTY; 64];
    let mut r = 0;
    while r < 8 {
        let mut c = 0;
        while c < 8 {
            let x: u8 = kani::any();
            kani::assume(x <= 12);
            board[r * 8 + c] = x;
            c += 1;
        }
        r += 1;
    }
    board[sq] = content;
    let p = Pos {
        board,
        white_to_move,
        castle: [kani::any(), kani::any(), kani::any(), kani::any()],
        ep: kani::any(),
    };
    kani::assume(spec::consistent(&p));
    p
}

pub struct Sym {
    pub p: Pos,
    pub game: Game,
    pub hash: u64,
    pub score: i16,
    pub endgame: bool,
}

pub fn any_game_with(sq: usize, content: u8, white_to_move: bool, nstates: usize) -> Sym {
    let p = any_pos_with(sq, content, white_to_move);
    let hash: u64 = kani::any();
    let score: i16 = kani::any();
    kani::assume(score >= -SCORE_BOUND && score <= SCORE_BOUND);
    let endgame: bool = kani::any();
    let filler: u8 = kani::any();
    let game = build_game(&p, hash, score, endgame, nstates, filler);
    Sym { p, game, hash, score, endgame }
}

fn same_arrays(a: &Game, b: &Game) -> bool {
    let (ba, bb) = (a.verif_board(), b.verif_board());
    let (ha, hb) = (a.verif_past_hashes(), b.verif_past_hashes());
    let (sa, sb) = (a.verif_past_scores(), b.verif_past_scores());
    let mut ok = true;
    let mut r = 0;
    while r < 8 {
        let mut c = 0;
        while c < 8 {
            let i = r * 8 + c;
            ok &= piece_code(ba[i]) == piece_code(bb[i]);
            ok &= ha[i] == hb[i];
            ok &= sa[i] == sb[i];
            c += 1;
        }
        r += 1;
    }
    ok
}

/// Bookkeeping of what the generator emitted from the origin square.
struct Seen {
    normal: u64,
    promo: [u64; 4],
    ep: u64,
    castle_short: bool,
    castle_long: bool,
}

fn promo_index(k: u8) -> usize {
    match k {
        spec::QUEEN => 0,
        spec::ROOK => 1,
        spec::BISHOP => 2,
        _ => 3,
    }
}

#[allow(non_snake_case)]
pub fn k_body(SQ: usize, KIND: u8, WHITE: bool, G: u8) {
    let content = spec::code(KIND, !WHITE);
    let sym = any_game_with(SQ, content, WHITE, 2);
    let p = sym.p;
    if KIND == spec::KING {
        // part of "the side not to move is not in check": the kings never stand next to each other
        let ek = spec::king_square(&p.board, !WHITE);
        let dr = spec::row(ek) - spec::row(SQ);
        let dc = spec::col(ek) - spec::col(SQ);
        kani::assume(dr > 1 || dr < -1 || dc > 1 || dc < -1);
    }
    let game = &sym.game;
    let piece = code_piece(content).unwrap();
    let tables = tables(sym.endgame);

    let mut seen = Seen { normal: 0, promo: [0; 4], ep: 0, castle_short: false, castle_long: false };

    let d_hash_before = sym.hash ^ spec::hash(&p);
    let d_score_before = sym.score.wrapping_sub(spec::score(&tables, &p.board));

    piece.get_moves(
        |m: Move| {
            let (from, to, mk) = spec_move(&m);
            if G == GEN {
                // soundness: the move is a geometrically valid move of the piece on SQ ...
                assert!(from == SQ, "[C01] emitted move does not start on the generating square");
                assert!(spec::pseudo(&p, from, to, mk), "[C01] emitted move is not a valid piece move");
                // ... carrying exactly the data the position dictates ...
                assert!(m == real_move(&p, from, to, mk), "[C01] emitted move has wrong fields");
                // ... and emitted once.
                let bit = 1u64 << to;
                match mk {
                    MK::Normal => {
                        assert!(seen.normal & bit == 0, "[C01] move emitted twice");
                        seen.normal |= bit;
                    }
                    MK::Promo(k) => {
                        let i = promo_index(k);
                        assert!(seen.promo[i] & bit == 0, "[C01] promotion emitted twice");
                        seen.promo[i] |= bit;
                    }
                    MK::EnPassant => {
                        assert!(seen.ep & bit == 0, "[C01] en passant emitted twice");
                        seen.ep |= bit;
                    }
                    MK::CastleShort => {
                        assert!(!seen.castle_short, "[C01] castling emitted twice");
                        seen.castle_short = true;
                    }
                    MK::CastleLong => {
                        assert!(!seen.castle_long, "[C01] castling emitted twice");
                        seen.castle_long = true;
                    }
                }
                return;
            }
            if G == TEXT {
                let text = m.uci_notation();
                let (want, n) = spec::uci_text(from, to, mk);
                let got = text.as_bytes();
                assert!(got.len() == n, "[C12] move text has the wrong length");
                let mut i = 0;
                while i < 5 {
                    if i < n {
                        assert!(got[i] == want[i], "[C12] move text differs from UCI long algebraic");
                    }
                    i += 1;
                }
                let back = Move::from_uci_notation(text.as_str(), game);
                assert!(back == Some(m), "[C12] reading the move text back gives a different move");
                std::mem::forget(text);
                return;
            }

            let mut g2 = game.clone();
            g2.push(m);

            if G == SUCC {
                let want = spec::apply(&p, from, to, mk);
                let got = spec_pos(&g2);
                let mut r = 0;
                while r < 8 {
                    let mut c = 0;
                    while c < 8 {
                        assert!(got.board[r * 8 + c] == want.board[r * 8 + c], "[C02] wrong piece placement after the move");
                        c += 1;
                    }
                    r += 1;
                }
                assert!(got.white_to_move == want.white_to_move, "[C02] wrong side to move after the move");
                assert!(got.castle[0] == want.castle[0], "[C02] wrong white king-side castling right after the move");
                assert!(got.castle[1] == want.castle[1], "[C02] wrong white queen-side castling right after the move");
                assert!(got.castle[2] == want.castle[2], "[C02] wrong black king-side castling right after the move");
                assert!(got.castle[3] == want.castle[3], "[C02] wrong black queen-side castling right after the move");
                assert!(got.ep == want.ep, "[C02] wrong en-passant file after the move");
                assert!(g2.len() == game.len() + 1, "[C02] the per-ply state stack did not grow by one");
                // closure of the quantifier domain and of the cached king squares (induction step)
                let captured_king = spec::kind_of_or(p.board[to], 99) == spec::KING;
                if !captured_king {
                    assert!(spec::consistent(&got), "[C02] successor position is not consistent (rights / e.p. / kings)");
                    let kp = g2.verif_king_positions();
                    assert!(square(kp[0]) == spec::king_square(&got.board, true), "[C02] cached white king square is stale");
                    assert!(square(kp[1]) == spec::king_square(&got.board, false), "[C02] cached black king square is stale");
                }
            }
            if G == HASH {
                let after = spec_pos(&g2);
                assert!(g2.hash() ^ spec::hash(&after) == d_hash_before, "[C04] hash is not a function of the position after the move");
                let mut ok = true;
                let ph = g2.verif_past_hashes();
                let mut r = 0;
                while r < 8 {
                    let mut c = 0;
                    while c < 8 {
                        let i = r * 8 + c;
                        ok &= ph[i] == spec::KEY_SQUARE[i][after.board[i] as usize];
                        c += 1;
                    }
                    r += 1;
                }
                assert!(ok, "[C04] per-square hash cache does not match the board after the move");
            }
            if G == SCORE {
                let after = spec_pos(&g2);
                assert!(
                    g2.score().wrapping_sub(spec::score(&tables, &after.board)) == d_score_before,
                    "[C16] score is not the piece-square sum after the move"
                );
                let mut ok = true;
                let ps = g2.verif_past_scores();
                let mut r = 0;
                while r < 8 {
                    let mut c = 0;
                    while c < 8 {
                        let i = r * 8 + c;
                        ok &= ps[i] == spec::pst(&tables, after.board[i], i);
                        c += 1;
                    }
                    r += 1;
                }
                assert!(ok, "[C16] per-square score cache does not match the board after the move");
            }
            if G == UNDO || G == SAFE || G == WITNESS {
                g2.pop(m);
            }
            if G == UNDO {
                assert!(same_arrays(&g2, game), "[C03] board or per-square caches differ after take-back");
                assert!(g2.hash() == game.hash(), "[C03] hash differs after take-back");
                assert!(g2.score() == game.score(), "[C03] score differs after take-back");
                assert!(g2.player() == game.player(), "[C03] side to move differs after take-back");
                assert!(g2.len() == game.len(), "[C03] game length differs after take-back");
                assert!(
                    g2.verif_state_at(g2.len() - 1).verif_bits() == game.verif_state_at(game.len() - 1).verif_bits(),
                    "[C03] castling rights / e.p. file differ after take-back"
                );
                let (ka, kb) = (g2.verif_king_positions(), game.verif_king_positions());
                assert!(ka[0] == kb[0] && ka[1] == kb[1], "[C03] cached king squares differ after take-back");
            }
            std::mem::forget(g2);
        },
        game,
        position(SQ),
    );

    if G == GEN {
        // completeness: every geometrically valid move from SQ was emitted (king steps only
        // when the destination is not attacked afterwards: the generator may leave out king
        // steps next to the enemy king, which are illegal anyway).
        let mut to = 0;
        let mut r = 0;
        while r < 8 {
            let mut c = 0;
            while c < 8 {
                let bit = 1u64 << to;
                if to != SQ {
                    let valid = spec::pseudo(&p, SQ, to, MK::Normal);
                    if KIND == spec::KING {
                        if valid && seen.normal & bit == 0 {
                            let q = spec::apply(&p, SQ, to, MK::Normal);
                            assert!(spec::attacked(&q.board, to, !WHITE), "[C01] a legal king move is missing");
                        }
                    } else {
                        assert!(!valid || seen.normal & bit != 0, "[C01] a valid move is missing");
                    }
                    if KIND == spec::PAWN {
                        let vp = spec::pseudo(&p, SQ, to, MK::Promo(spec::QUEEN));
                        let mut i = 0;
                        while i < 4 {
                            assert!(!vp || seen.promo[i] & bit != 0, "[C01] a promotion is missing");
                            i += 1;
                        }
                        assert!(!spec::pseudo(&p, SQ, to, MK::EnPassant) || seen.ep & bit != 0, "[C01] an en-passant capture is missing");
                    }
                }
                to += 1;
                c += 1;
            }
            r += 1;
        }
        if KIND == spec::KING {
            let home = if WHITE { 4 } else { 60 };
            if SQ == home {
                assert!(!spec::pseudo(&p, SQ, home + 2, MK::CastleShort) || seen.castle_short, "[C01] short castling is missing");
                assert!(!spec::pseudo(&p, SQ, home - 2, MK::CastleLong) || seen.castle_long, "[C01] long castling is missing");
            }
        }
    }
    if G == WITNESS {
        assert!(false, "[witness] end of harness reached");
    }
    std::mem::forget(sym);
}

/// C15: positions the FEN reader accepts may hold pawns on their LAST rank (nothing in the
/// reader forbids it).  The generator must stay in range for them too: a pawn of the side to
/// move on its last rank, everything else symbolic (one king each, rights and e.p. file
/// consistent; pawns anywhere).  Only Kani's own checks (unsafe preconditions, debug
/// assertions, bounds) are looked at -- the rules say nothing about such positions.
#[allow(non_snake_case)]
pub fn k_lastrank_body(SQ: usize, WHITE: bool) {
    let mut board = [spec::EMPTY; 64];
    let mut r = 0;
    while r < 8 {
        let mut c = 0;
        while c < 8 {
            let x: u8 = kani::any();
            kani::assume(x <= 12);
            board[r * 8 + c] = x;
            c += 1;
        }
        r += 1;
    }
    board[SQ] = spec::code(spec::PAWN, !WHITE);
    let p = Pos { board, white_to_move: WHITE, castle: [kani::any(), kani::any(), kani::any(), kani::any()], ep: kani::any() };
    kani::assume(spec::count(&p.board, spec::code(spec::KING, false)) == 1 && spec::count(&p.board, spec::code(spec::KING, true)) == 1);
    kani::assume(spec::rights_consistent(&p) && spec::ep_consistent(&p));
    let game = build_game(&p, 0, 0, false, 2, 0);
    let mut n = 0u32;
    code_piece(p.board[SQ]).unwrap().get_moves(
        |m: Move| {
            let (from, _to, _mk) = spec_move(&m);
            assert!(from == SQ, "[C15] a move emitted for a pawn on its last rank does not start on its square");
            n += 1;
        },
        &game,
        position(SQ),
    );
    assert!(n <= 12, "[C15] implausibly many moves for one pawn");
    std::mem::forget(game);
}

macro_rules! kl_instance {
    ($name:ident, $sq:expr, $white:expr) => {
        #[cfg_attr(kani, kani::proof)]
        #[cfg_attr(kani, kani::unwind(9))]
        pub fn $name() {
            k_lastrank_body($sq, $white)
        }
    };
}

kl_instance!(k_lastrank_a8_w, 56, true);
kl_instance!(k_lastrank_e8_w, 60, true);
kl_instance!(k_lastrank_h8_w, 63, true);
kl_instance!(k_lastrank_a1_b, 0, false);
kl_instance!(k_lastrank_d1_b, 3, false);
kl_instance!(k_lastrank_h1_b, 7, false);

macro_rules! k_instance {
    ($name:ident, $sq:expr, $kind:expr, $white:expr, $g:expr) => {
        #[cfg_attr(kani, kani::proof)]
        #[cfg_attr(kani, kani::unwind(9))]
        pub fn $name() {
            k_body($sq, $kind, $white, $g)
        }
    };
}

include!("gen_k.rs");
