//! Move texts: UCI long algebraic (C12) and the move record (C20), against the spec's
//! fixed-buffer renderers, for symbolic moves of every kind; and the UCI parser against the
//! "no aliasing" law on symbolic strings over an arbitrary position.

#[cfg(not(kani))]
use crate::shim as kani;
use crate::chess::move_struct::Move;
use crate::chess::verif_hooks::{GameState, Piece, PieceType, Position};
use crate::chess::{Game, Player};
use crate::glue::*;
use crate::h_push::{any_pos, any_square};
use crate::spec::{self, Pos, MK};

pub const T_NORMAL: u8 = 0;
pub const T_PROMO: u8 = 1;
pub const T_EP: u8 = 2;
pub const T_CASTLE: u8 = 3;

fn any_code() -> u8 {
    let c: u8 = kani::any();
    kani::assume(c >= 1 && c <= 12);
    c
}

/// An arbitrary `Move` value of the given kind, with the facts the texts depend on:
/// (move, mover code, from, to, spec kind, is-capture).
pub fn any_move_value(kind: u8) -> (Move, u8, usize, usize, MK, bool) {
    let white: bool = kani::any();
    let owner = player(white);
    match kind {
        T_NORMAL => {
            let mover = any_code();
            let from = any_square();
            let to = any_square();
            let cap: u8 = kani::any();
            kani::assume(cap <= 12);
            let m = Move::Normal {
                piece: code_piece(mover).unwrap(),
                start: position(from),
                end: position(to),
                captured_piece: code_piece(cap),
            };
            (m, mover, from, to, MK::Normal, cap != spec::EMPTY)
        }
        T_PROMO => {
            let from = any_square();
            let to = any_square();
            let cap: u8 = kani::any();
            kani::assume(cap <= 12);
            let np: u8 = kani::any();
            kani::assume(np <= spec::KNIGHT);
            let m = Move::Promotion {
                owner,
                new_piece: code_kind(np),
                start: position(from),
                end: position(to),
                captured_piece: code_piece(cap),
            };
            (m, spec::code(spec::PAWN, !white), from, to, MK::Promo(np), cap != spec::EMPTY)
        }
        T_EP => {
            let fc: usize = kani::any();
            let tc: usize = kani::any();
            kani::assume(fc < 8 && tc < 8);
            let m = Move::EnPassant { owner, start_col: fc as i8, end_col: tc as i8 };
            let (fr, tr) = if white { (4, 5) } else { (3, 2) };
            (m, spec::code(spec::PAWN, !white), fr * 8 + fc, tr * 8 + tc, MK::EnPassant, true)
        }
        _ => {
            let short: bool = kani::any();
            let home = if white { 4 } else { 60 };
            if short {
                (Move::CastlingShort { owner }, spec::code(spec::KING, !white), home, home + 2, MK::CastleShort, false)
            } else {
                (Move::CastlingLong { owner }, spec::code(spec::KING, !white), home, home - 2, MK::CastleLong, false)
            }
        }
    }
}

fn same_text(got: &[u8], want: &[u8], n: usize) -> bool {
    if got.len() != n {
        return false;
    }
    let mut ok = true;
    let mut i = 0;
    while i < 8 {
        if i < n {
            ok &= got[i] == want[i];
        }
        i += 1;
    }
    ok
}

/// C12 (i): the UCI text of every move value is the standard long algebraic text.
pub fn uci_text_body(kind: u8) {
    let (m, _mover, from, to, mk, _cap) = any_move_value(kind);
    let text = m.uci_notation();
    let (want, n) = spec::uci_text(from, to, mk);
    assert!(same_text(text.as_bytes(), &want, n), "[C12] move text differs from UCI long algebraic");
    std::mem::forget(text);
}

/// C20: the move-record text names piece, origin file, capture, destination, promotion piece.
pub fn pgn_text_body(kind: u8) {
    let (m, mover, from, to, mk, cap) = any_move_value(kind);
    let text = m.pgn_notation();
    let (want, n) = spec::pgn_text(mover, from, to, mk, cap);
    assert!(same_text(text.as_bytes(), &want, n), "[C20] move record text does not name what was played");
    std::mem::forget(text);
}

/// C12 (iv): whatever string of move shape is read in whatever position, a move that comes
/// out is the move the string names (its own text is the string) -- so a string can never be
/// accepted as a different move of another kind.  `with_promo`: 5-byte strings.
pub fn parse_no_alias_body(with_promo: bool) {
    let p = any_pos();
    let game = build_game(&p, 0, 0, false, 1, 0);
    let mut buf = [0u8; 5];
    let mut i = 0;
    while i < 5 {
        let b: u8 = kani::any();
        buf[i] = b;
        i += 1;
    }
    // move shape: file, rank, file, rank, optional lower-case letter
    kani::assume(buf[0] >= b'a' && buf[0] <= b'h' && buf[2] >= b'a' && buf[2] <= b'h');
    kani::assume(buf[1] >= b'1' && buf[1] <= b'8' && buf[3] >= b'1' && buf[3] <= b'8');
    kani::assume(buf[4] >= b'a' && buf[4] <= b'z');
    let n = if with_promo { 5 } else { 4 };
    let s = unsafe { std::str::from_utf8_unchecked(&buf[..n]) };
    if let Some(m) = Move::from_uci_notation(s, &game) {
        let (from, to, mk) = spec_move(&m);
        let (want, wn) = spec::uci_text(from, to, mk);
        assert!(wn == n, "[C12] a string is read as a move whose own text has another length");
        let mut k = 0;
        while k < 5 {
            if k < n {
                assert!(want[k] == buf[k], "[C12] a string is read as a move with a different text (aliasing)");
            }
            k += 1;
        }
    }
    std::mem::forget(game);
}

/// C12 (iii): reading back the text of any shape-valid move of the position gives that move.
/// Squares concrete per instance (a, b as in the P family), contents symbolic.
pub fn roundtrip_body(mkind: u8, a: usize, b: usize) {
    let p = any_pos();
    let (from, to, mk) = crate::h_push::any_shape_valid_move(mkind, a, b, &p);
    if mkind == crate::h_push::M_NORMAL {
        // the text of a king's two-square step from its home square IS castling, and a pawn's
        // diagonal step to an empty square IS an en-passant capture: neither is a Normal move
        // the generator can emit
        let k = spec::kind_of(p.board[from]);
        kani::assume(!(k == spec::KING && (from == 4 || from == 60) && spec::row(from) == spec::row(to) && (to == from + 2 || to + 2 == from)));
        kani::assume(!(k == spec::PAWN && spec::col(from) != spec::col(to) && p.board[to] == spec::EMPTY));
    }
    let m = real_move(&p, from, to, mk);
    let game = build_game(&p, 0, 0, false, 1, 0);
    let (text, n) = spec::uci_text(from, to, mk);
    let s = unsafe { std::str::from_utf8_unchecked(&text[..n]) };
    let back = Move::from_uci_notation(s, &game);
    assert!(back == Some(m), "[C12] reading the text of a move back gives a different move");
    std::mem::forget(game);
}

/// Performance stub for `String::push` (the real one branches four ways on the UTF-8 width of
/// a symbolic char, which makes the solver's memory explode): every character of a move text
/// must be ASCII, which is ASSERTED here, and an ASCII char is pushed as its single byte --
/// exactly what the real function does for it.  Native replays use the real `String::push`.
pub fn stub_string_push(s: &mut String, c: char) {
    assert!((c as u32) < 128, "[C12] a move text contains a non-ASCII character");
    unsafe {
        s.as_mut_vec().push(c as u8);
    }
}

macro_rules! tx_instance {
    ($name:ident, $body:ident, $($arg:expr),*) => {
        #[cfg_attr(kani, kani::proof)]
        #[cfg_attr(kani, kani::unwind(9))]
        #[cfg_attr(kani, kani::stub(std::string::String::push, stub_string_push))]
        pub fn $name() {
            $body($($arg),*)
        }
    };
}

macro_rules! t_instance {
    ($name:ident, $body:ident, $($arg:expr),*) => {
        #[cfg_attr(kani, kani::proof)]
        #[cfg_attr(kani, kani::unwind(9))]
        pub fn $name() {
            $body($($arg),*)
        }
    };
}

tx_instance!(c12_uci_text_normal, uci_text_body, T_NORMAL);
tx_instance!(c12_uci_text_promo, uci_text_body, T_PROMO);
tx_instance!(c12_uci_text_ep, uci_text_body, T_EP);
tx_instance!(c12_uci_text_castle, uci_text_body, T_CASTLE);

tx_instance!(c20_pgn_text_normal, pgn_text_body, T_NORMAL);
tx_instance!(c20_pgn_text_promo, pgn_text_body, T_PROMO);
tx_instance!(c20_pgn_text_ep, pgn_text_body, T_EP);
tx_instance!(c20_pgn_text_castle, pgn_text_body, T_CASTLE);

t_instance!(c12_parse_no_alias_4, parse_no_alias_body, false);
t_instance!(c12_parse_no_alias_5, parse_no_alias_body, true);

/// C20: the move record numbers the moves (`1. <white> <black> 2. <white> ...`), each move
/// followed by a blank, and renders every move with `pgn_notation`.  A record of `n` concrete
/// moves (a pawn move, a knight capture, a promotion, castling, ...).
pub fn get_pgn_body(n: usize) {
    let mut board = [spec::EMPTY; 64];
    board[4] = spec::code(spec::KING, false);
    board[60] = spec::code(spec::KING, true);
    let mut game = crate::h_attack::board_only_game(&board, true);
    let all = [
        Move::Normal { piece: code_piece(spec::code(spec::PAWN, false)).unwrap(), start: position(12), end: position(28), captured_piece: None },
        Move::Normal { piece: code_piece(spec::code(spec::KNIGHT, true)).unwrap(), start: position(57), end: position(42), captured_piece: code_piece(spec::code(spec::BISHOP, false)) },
        Move::Promotion { owner: Player::White, new_piece: code_kind(spec::KNIGHT), start: position(54), end: position(63), captured_piece: code_piece(spec::code(spec::ROOK, true)) },
        Move::CastlingLong { owner: Player::Black },
        Move::EnPassant { owner: Player::White, start_col: 4, end_col: 3 },
    ];
    let mut record = Vec::new();
    let mut i = 0;
    while i < 5 {
        if i < n {
            record.push(all[i]);
        }
        i += 1;
    }
    game.verif_set_move_stack(record);
    let text = game.get_pgn();
    let got = text.as_bytes();
    // expected: built with the spec's renderer and the numbering rule
    let mut want = [0u8; 64];
    let mut w = 0;
    let mut i = 0;
    while i < 5 {
        if i < n {
            if i % 2 == 0 {
                want[w] = b'1' + (i / 2) as u8;
                want[w + 1] = b'.';
                want[w + 2] = b' ';
                w += 3;
            }
            let (from, to, mk) = spec_move(&all[i]);
            let (mover, cap) = match all[i] {
                Move::Normal { piece, captured_piece, .. } => (piece_code(Some(piece)), captured_piece.is_some()),
                Move::Promotion { owner, captured_piece, .. } => (spec::code(spec::PAWN, owner == Player::Black), captured_piece.is_some()),
                Move::EnPassant { owner, .. } => (spec::code(spec::PAWN, owner == Player::Black), true),
                Move::CastlingShort { owner } | Move::CastlingLong { owner } => (spec::code(spec::KING, owner == Player::Black), false),
            };
            let (t, tn) = spec::pgn_text(mover, from, to, mk, cap);
            let mut k = 0;
            while k < 8 {
                if k < tn {
                    want[w] = t[k];
                    w += 1;
                }
                k += 1;
            }
            want[w] = b' ';
            w += 1;
        }
        i += 1;
    }
    assert!(got.len() == w, "[C20] the move record has the wrong length (numbering / separators)");
    let mut k = 0;
    while k < 64 {
        if k < w && k < got.len() {
            assert!(got[k] == want[k], "[C20] the move record does not number and list the moves as played");
        }
        k += 1;
    }
    std::mem::forget(text);
    std::mem::forget(game);
}

macro_rules! tp_instance {
    ($name:ident, $n:expr) => {
        #[cfg_attr(kani, kani::proof)]
        #[cfg_attr(kani, kani::unwind(70))]
        #[cfg_attr(kani, kani::stub(std::string::String::push, stub_string_push))]
        pub fn $name() {
            get_pgn_body($n)
        }
    };
}

// Not instantiated as proof harnesses: `get_pgn` (a `Vec<String>` collect plus `to_string()` of
// the move number) runs CBMC out of memory (62 GB) even for three concrete moves.  The body is
// kept because it runs natively (`rbreplay h_text::get_pgn_native_* <empty file>`) as a sanity
// check of the expected text; it is not part of any claim.
pub fn get_pgn_native_3() {
    get_pgn_body(3)
}
pub fn get_pgn_native_5() {
    get_pgn_body(5)
}

/// vacuity witnesses: these must FAIL
pub fn witness_body(which: u8) {
    if which == 0 {
        uci_text_body(T_PROMO);
        parse_no_alias_reach();
    } else {
        pgn_text_body(T_NORMAL);
    }
    assert!(false, "[witness] end of harness reached");
}

fn parse_no_alias_reach() {
    let p = any_pos();
    let game = build_game(&p, 0, 0, false, 1, 0);
    let s = "e2e4";
    let m = Move::from_uci_notation(s, &game);
    kani::assume(m.is_some());
    std::mem::forget(game);
}

tx_instance!(c12_witness, witness_body, 0);
tx_instance!(c20_witness, witness_body, 1);

include!("gen_t.rs");
