//! Harness crate: /repo's current sources, pulled in by path, plus oracles and harnesses.
//! Under `cargo kani` the harness functions are proof harnesses; natively the same functions are
//! compiled against `shim` so that a solver counterexample can be replayed on the real code.
#![allow(dead_code, unused_imports, unused_variables, unused_mut, clippy::all)]

#[path = "/repo/src/constants.rs"]
pub mod constants;
#[path = "/repo/src/chess/mod.rs"]
pub mod chess;
#[path = "/repo/src/search.rs"]
pub mod search;
#[path = "/repo/src/uci.rs"]
pub mod uci;

pub mod glue;
pub mod spec;

#[cfg(not(kani))]
pub mod shim;

pub mod h_attack;
pub mod h_fen;
pub mod h_filter;
pub mod h_k;
pub mod h_push;
pub mod h_search;
pub mod h_text;
pub mod h_unit;

#[cfg(not(kani))]
pub mod dispatch;
