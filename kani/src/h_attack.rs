//! C01 lemma L1: the engine's attack detection (`Game::is_targeted`, a ray walk outward from
//! the target square) agrees with the spec's attacker-centric definition on EVERY board,
//! for a concrete target square and either colour.

#[cfg(not(kani))]
use crate::shim as kani;
use crate::chess::verif_hooks::{GameState, Parts, Piece, PieceType, Position};
use crate::chess::{Game, GamePhase, Player};
use crate::glue::*;
use crate::h_push::any_board;
use crate::spec;

/// A game whose board is `board`; caches are zero (is_targeted never reads them).
pub fn board_only_game(board: &[u8; 64], white_to_move: bool) -> Game {
    let mut b = [None; 64];
    let mut r = 0;
    while r < 8 {
        let mut c = 0;
        while c < 8 {
            b[r * 8 + c] = code_piece(board[r * 8 + c]);
            c += 1;
        }
        r += 1;
    }
    let parts = Parts {
        board: b,
        past_scores: [0; 64],
        past_hashes: [0; 64],
        score: 0,
        hash: 0,
        current_player: player(white_to_move),
        king_positions: [position(0), position(0)],
        endgame_king_table: false,
        phase: GamePhase::Opening,
    };
    Game::verif_from_parts(parts, &[GameState::verif_from_bits(8)], Vec::new())
}

pub fn targeted_body(sq: usize, witness: bool) {
    let board = any_board();
    let white: bool = kani::any();
    let game = board_only_game(&board, kani::any());
    let got = game.is_targeted(position(sq), player(white));
    let want = spec::attacked(&board, sq, !white);
    assert!(got == want, "[C01] attack detection disagrees with the rules");
    if witness {
        assert!(false, "[witness] end of harness reached");
    }
    std::mem::forget(game);
}

macro_rules! a_instance {
    ($name:ident, $sq:expr, $w:expr) => {
        #[cfg_attr(kani, kani::proof)]
        #[cfg_attr(kani, kani::unwind(9))]
        pub fn $name() {
            targeted_body($sq, $w)
        }
    };
}

include!("gen_a.rs");
