//! Search-side harnesses (C06-C10, C18): the REAL search functions of src/search.rs, one
//! function (one ply) at a time, over an ABSTRACT game.
//!
//! The `Game` methods the search calls are replaced by Kani stubs that present an abstract
//! tree: a node is the path of move indices from the harness root; `get_moves` lists the
//! node's moves (concrete, distinct `Move` values), `push`/`pop` walk the path, `hash` is a
//! distinct constant per node, `score`, `king_exists`, `is_targeted` are symbolic per node.
//! The callee one ply below the function under test is replaced by a stub that returns ANY
//! value allowed by the alpha-beta return contract (spec::ab_contract) for that child's
//! symbolic true value -- the textbook induction step, discharged by the solver on the real
//! code.  Every stub is listed in the evidence.

#[cfg(not(kani))]
use crate::shim as kani;
use crate::chess::move_struct::Move;
use crate::chess::verif_hooks::{GameState, Piece, PieceType, Position};
use crate::chess::{Game, Player, Score};
use crate::glue::*;
use crate::search::verif_hooks as sh;
use crate::search::{TableEntry, TranspositionTable};
use crate::spec::{self, Pos};
use arrayvec::ArrayVec;
use nohash_hasher::BuildNoHashHasher;
use std::collections::HashMap;
use std::sync::atomic::{AtomicBool, Ordering::Relaxed};

pub const B: usize = 5; // max moves per node
pub const NODES: usize = 1 + B + B * B; // root, children, grandchildren
pub const VMAX: i16 = 30000; // values outside are the mate range, excluded as in the property

static mut PATH: [usize; 4] = [0; 4];
static mut DEPTH: usize = 0;
static mut NM: [usize; NODES] = [0; NODES];
static mut VAL: [i16; NODES] = [0; NODES];
static mut STAND: [i16; NODES] = [0; NODES];
static mut TACT: [[bool; B]; NODES] = [[false; B]; NODES];
static mut KING_EXISTS: [bool; NODES] = [true; NODES];
static mut IN_CHECK: [bool; NODES] = [false; NODES];
static mut PROTOCOL_OK: bool = true;
static mut CALLS: usize = 0; // calls of the stubbed callee
static mut ABORT_AT: usize = usize::MAX; // the stubbed callee reports "stopped" from this call on
static mut CALLS_AFTER_ABORT: usize = 0;
static mut WINDOW_OK: bool = true;
static mut MEMBER_OK: bool = true;
static mut KILLERS_LEN: usize = usize::MAX; // shortest killer table handed to a node
static mut NODE_RD_OK: bool = true;
static mut GEN_CALLED: bool = false;

fn node_id() -> usize {
    unsafe {
        let mut id = 0;
        let mut d = 0;
        while d < 3 {
            if d < DEPTH {
                id = id * B + PATH[d] + 1;
            }
            d += 1;
        }
        if id < NODES {
            id
        } else {
            NODES - 1
        }
    }
}

/// The i-th move of a node: a knight move to square 8+i (distinct per i), capturing a queen
/// when the node says the move is tactical.  The mover's colour alternates with the depth.
fn abstract_move(i: usize, tactical: bool, white: bool) -> Move {
    Move::Normal {
        piece: code_piece(spec::code(spec::KNIGHT, !white)).unwrap(),
        start: position(0),
        end: position(8 + i),
        captured_piece: if tactical { code_piece(spec::code(spec::QUEEN, white)) } else { None },
    }
}

fn move_index(m: &Move) -> usize {
    match *m {
        Move::Normal { end, .. } => {
            let s = square(end);
            if s >= 8 && s < 8 + B {
                s - 8
            } else {
                B
            }
        }
        _ => B,
    }
}

fn white_at_depth() -> bool {
    unsafe { DEPTH % 2 == 0 }
}

// ---------------------------------------------------------------- stubs for Game

pub fn stub_get_moves(_game: &mut Game, moves: &mut ArrayVec<Move, 256>, _verify: bool) {
    unsafe {
        GEN_CALLED = true;
    }
    moves.clear();
    let n = node_id();
    unsafe {
        let mut i = 0;
        while i < B {
            if i < NM[n] {
                moves.push(abstract_move(i, TACT[n][i], white_at_depth()));
            }
            i += 1;
        }
    }
}

pub fn stub_push(_game: &mut Game, m: Move) {
    unsafe {
        let i = move_index(&m);
        let n = node_id();
        if i >= NM[n] || DEPTH >= 3 {
            // a move that is not in the move list of the node it is played in
            MEMBER_OK = false;
        }
        if DEPTH < 4 {
            PATH[DEPTH] = if i < B { i } else { 0 };
        }
        DEPTH += 1;
    }
}

pub fn stub_push_pv(game: &mut Game, m: Move) {
    unsafe {
        PV_PUSHES += 1;
    }
    stub_push(game, m)
}

pub fn stub_pop(_game: &mut Game, m: Move) {
    unsafe {
        if DEPTH == 0 || PATH[DEPTH - 1] != move_index(&m) {
            PROTOCOL_OK = false;
        }
        if DEPTH > 0 {
            DEPTH -= 1;
        }
    }
}

pub fn stub_hash(_game: &Game) -> u64 {
    1000 + node_id() as u64
}

pub fn stub_score(_game: &Game) -> Score {
    unsafe { STAND[node_id()] }
}

pub fn stub_player(_game: &Game) -> Player {
    player(white_at_depth())
}

pub fn stub_king_exists(_game: &Game, _p: Player) -> bool {
    unsafe { KING_EXISTS[node_id()] }
}

pub fn stub_is_targeted(_game: &Game, _pos: Position, _p: Player) -> bool {
    unsafe { IN_CHECK[node_id()] }
}

pub fn stub_uci_notation(_m: &Move) -> String {
    String::new()
}

/// Replacement for std's `[T]::sort_by_cached_key` (whose generic sorting machinery dominates
/// symbolic execution time): a plain stable insertion sort by the same key function -- the same
/// input/output relation (stable ascending order by key).
pub fn stub_sort_by_cached_key<T, K: Ord, F: FnMut(&T) -> K>(s: &mut [T], mut f: F) {
    let n = s.len();
    let mut i = 1;
    while i < n {
        let mut j = i;
        while j > 0 && f(&s[j - 1]) > f(&s[j]) {
            s.swap(j - 1, j);
            j -= 1;
        }
        i += 1;
    }
}

/// `f64::powf` is only used for the history bonus `depth^3`; the libm model of `pow` is very
/// expensive for the solver.  The stub computes the cube exactly for the exponent 3 the
/// engine uses (asserted).
pub fn stub_powf(x: f64, n: f64) -> f64 {
    assert!(n == 3.0, "powf stub is only valid for the exponent 3");
    x * x * x
}

// ---------------------------------------------------------------- contract stubs for callees

fn contract_value(alpha: Score, beta: Score) -> Score {
    unsafe {
        if alpha > beta {
            WINDOW_OK = false;
        }
        let v = VAL[node_id()];
        let r: i16 = kani::any();
        kani::assume(spec::ab_contract(v, alpha, beta, r));
        CALLS += 1;
        r
    }
}

pub fn stub_depth_1(_game: &mut Game, alpha: Score, beta: Score, _rd: u8) -> Score {
    contract_value(alpha, beta)
}

pub fn stub_quiescence(_game: &mut Game, alpha: Score, beta: Score, _rd: u8) -> Score {
    contract_value(alpha, beta)
}

#[allow(clippy::too_many_arguments)]
pub fn stub_node(
    _game: &mut Game,
    _table: &mut TranspositionTable,
    _flag: &AtomicBool,
    _remaining: u8,
    rd: u8,
    alpha: Score,
    beta: Score,
    killers: &mut [Option<Move>],
    _history: &mut [u16; 64 * 12],
) -> Option<Score> {
    unsafe {
        if killers.len() < KILLERS_LEN {
            KILLERS_LEN = killers.len();
        }
        if rd != 1 {
            NODE_RD_OK = false;
        }
        if CALLS >= ABORT_AT {
            CALLS_AFTER_ABORT += if CALLS > ABORT_AT { 1 } else { 0 };
            CALLS += 1;
            return None;
        }
    }
    Some(contract_value(alpha, beta))
}

// ---------------------------------------------------------------- set-up helpers

fn any_value() -> i16 {
    let v: i16 = kani::any();
    kani::assume(v >= -VMAX && v <= VMAX);
    v
}

fn reset() {
    // every harness starts from the statics' initial values; only the scalars are re-set so that
    // a native replay (one harness per process) starts from the same state
    unsafe {
        DEPTH = 0;
        PROTOCOL_OK = true;
        WINDOW_OK = true;
        MEMBER_OK = true;
        CALLS = 0;
        CALLS_AFTER_ABORT = 0;
        ABORT_AT = usize::MAX;
    }
}

/// A real `Game` object to hand to the search; none of its content is ever looked at (all
/// accessors the search uses are stubbed), except the move record, which the root reads.
fn dummy_game() -> Game {
    let mut board = [spec::EMPTY; 64];
    board[4] = spec::code(spec::KING, false);
    board[60] = spec::code(spec::KING, true);
    let p = Pos { board, white_to_move: true, castle: [false; 4], ep: 8 };
    let mut game = crate::h_attack::board_only_game(&p.board, true);
    // One move in the record: Kani 0.68 mis-models the drop of a CLONED EMPTY Vec (the second
    // clone comes back with capacity 1 and a dangling pointer and `__rust_dealloc` complains);
    // with a non-empty record the clones own real allocations.  One move never triggers the
    // repetition filter (which needs five).
    game.verif_set_move_stack(vec![abstract_move(4, true, false)]);
    game
}

/// Same without any loop in the harness (the capture-search harnesses run with a small unwind
/// bound, which also bounds the recursion depth CBMC explores).
fn dummy_game_noloop() -> Game {
    use crate::chess::verif_hooks::Parts;
    let parts = Parts {
        board: [None; 64],
        past_scores: [0; 64],
        past_hashes: [0; 64],
        score: 0,
        hash: 0,
        current_player: Player::White,
        king_positions: [position(4), position(60)],
        endgame_king_table: false,
        phase: crate::chess::GamePhase::Opening,
    };
    Game::verif_from_parts(parts, &[GameState::verif_from_bits(8)], vec![abstract_move(4, true, false)])
}

/// `push` stub of the capture-search harnesses.  CBMC cannot constant-fold the "is this move
/// tactical" test on moves read back from the move buffer, so without help it explores the
/// recursion to the unwinding bound at every move.  The abstract capture tree has no tactical
/// move below depth 2; a push there is asserted unreachable, which also ends the path.
pub fn stub_push_q(game: &mut Game, m: Move) {
    unsafe {
        if DEPTH >= 2 {
            assert!(false, "[C09] the capture search plays a move that is not tactical");
        }
    }
    stub_push(game, m)
}

/// `get_moves` stub of the capture-search harnesses: at most 3 moves per node.
pub fn stub_get_moves_q(_game: &mut Game, moves: &mut ArrayVec<Move, 256>, _verify: bool) {
    moves.clear();
    let n = node_id();
    unsafe {
        let mut i = 0;
        while i < 3 {
            if i < NM[n] {
                moves.push(abstract_move(i, TACT[n][i], white_at_depth()));
            }
            i += 1;
        }
    }
}

fn any_window() -> (i16, i16) {
    let alpha: i16 = kani::any();
    let beta: i16 = kani::any();
    kani::assume(alpha >= i16::MIN + 1 && alpha <= beta);
    (alpha, beta)
}

fn negamax_of_children(k: usize) -> i16 {
    // value of the node = max over its children of minus the child's value
    let mut best = i16::MIN;
    unsafe {
        let n = node_id();
        let mut i = 0;
        while i < B {
            if i < k {
                let child = n * B + i + 1;
                let c = -VAL[if child < NODES { child } else { NODES - 1 }];
                if c > best {
                    best = c;
                }
            }
            i += 1;
        }
    }
    best
}

// ---------------------------------------------------------------- C09 P: one interior ply

/// Real `get_best_move_score` at remaining depth 2 over k children whose depth-1 results obey
/// the contract; empty table; `killer`: which child (if any) is the killer move of this ply.
pub fn node_body(k: usize, killer: usize, witness: bool) {
    reset();
    unsafe {
        NM[0] = k;
        let mut i = 0;
        while i < B {
            if i < k {
                VAL[1 + i] = any_value();
                NM[1 + i] = 1;
            }
            i += 1;
        }
    }
    let mut game = dummy_game();
    let mut table: TranspositionTable = HashMap::with_capacity_and_hasher(8, BuildNoHashHasher::default());
    let flag = AtomicBool::new(true);
    let rd: u8 = kani::any();
    kani::assume(rd < 30);
    let (alpha, beta) = any_window();
    let mut killers: [Option<Move>; 32] = [None; 32];
    if killer < k {
        killers[rd as usize] = Some(abstract_move(killer, false, true));
    }
    let mut history = [0u16; 64 * 12];
    let v = negamax_of_children(k);

    let r = sh::get_best_move_score(&mut game, &mut table, &flag, 2, rd, alpha, beta, &mut killers, &mut history);

    unsafe {
        assert!(WINDOW_OK, "[C09] a child is searched with an inverted window");
        assert!(PROTOCOL_OK && DEPTH == 0, "[C03] the search does not take back the moves it plays");
        assert!(MEMBER_OK, "[C06] the search plays a move that is not in the node's move list");
    }
    match r {
        None => assert!(false, "[C07] the search reports a stop although the flag was never cleared"),
        Some(x) => {
            assert!(spec::ab_contract(v, alpha, beta, x), "[C09] pruning or move ordering changes the value of the node");
        }
    }
    // what the node leaves in the table (relied upon by C06 / C18 and by later look-ups)
    match table.get(&1000) {
        None => assert!(false, "[C06] the node leaves no table entry"),
        Some(e) => {
            let (score, pv, depth, flag) = sh::entry_parts(e);
            assert!(depth == 2, "[C06] table entry has the wrong depth");
            match pv {
                None => assert!(false, "[C06] table entry of a node with moves has no move"),
                Some(m) => assert!(move_index(&m) < k, "[C06] cached move is not one of the node's moves"),
            }
            // The bound flag and score of the entry are NOT asserted: with table look-ups disabled
            // (as C09 states) they do not influence any result.  (Observation, not a finding under
            // the given properties: after a PVS re-search `best_score` can decrease, so an entry
            // flagged UpperBound may understate the node's value.)
            let _ = (score, flag);
        }
    }
    if witness {
        assert!(false, "[witness] end of harness reached");
    }
    std::mem::forget(table);
    std::mem::forget(game);
}

// ---------------------------------------------------------------- C09 Q1: depth-1 specialisation

pub fn depth1_body(k: usize, witness: bool) {
    reset();
    unsafe {
        NM[0] = k;
        let mut i = 0;
        while i < B {
            if i < k {
                VAL[1 + i] = any_value();
            }
            i += 1;
        }
        KING_EXISTS[0] = kani::any();
        IN_CHECK[0] = kani::any();
    }
    let mut game = dummy_game();
    let rd: u8 = kani::any();
    kani::assume(rd < 200);
    let (alpha, beta) = any_window();
    let r = sh::get_best_move_score_depth_1(&mut game, alpha, beta, rd);
    unsafe {
        assert!(WINDOW_OK, "[C09] a child is searched with an inverted window");
        assert!(PROTOCOL_OK && DEPTH == 0, "[C03] the search does not take back the moves it plays");
        if k == 0 {
            // C10: no move at all: stalemate is 0, otherwise a loss scored by distance
            if KING_EXISTS[0] && !IN_CHECK[0] {
                assert!(r == 0, "[C10] a position without moves and without check is not scored as a draw");
            } else {
                assert!(r == i16::MIN + 2000 + rd as i16, "[C10] a lost position is not scored as a loss by distance");
            }
        } else {
            let v = negamax_of_children(k);
            assert!(spec::ab_contract(v, alpha, beta, r), "[C09] pruning changes the value of a depth-1 node");
        }
    }
    if witness {
        assert!(false, "[witness] end of harness reached");
    }
    std::mem::forget(game);
}

// ---------------------------------------------------------------- C09 Q: quiescence, real recursion

/// Reference value of a quiescence node: stand-pat or the best tactical continuation.
fn quiescence_reference(n: usize, depth: usize) -> i16 {
    unsafe {
        let white = depth % 2 == 0;
        let stand = if white { STAND[n] } else { -STAND[n] };
        let mut best = stand;
        if depth < 2 {
            let mut i = 0;
            while i < 3 {
                if i < NM[n] && TACT[n][i] {
                    let child = n * B + i + 1;
                    let c = -quiescence_reference(child, depth + 1);
                    if c > best {
                        best = c;
                    }
                }
                i += 1;
            }
        }
        best
    }
}

/// Real `quiescence_search` over an abstract capture tree: up to 3 moves at the root and at
/// each child, each tactical or not (symbolic), grandchildren have moves but no tactical ones.
pub fn quiescence_body(k0: usize, k1: usize, tact0: u8, tact1: u8, witness: bool) {
    // The SHAPE of the capture tree is concrete per instance (which moves are tactical: bit i
    // of tact0 for the root's move i, bit j of tact1 for every child's move j) -- with symbolic
    // shapes the recursion structure itself becomes symbolic and symbolic execution does not
    // finish; stand-pat values, window and distance from root are symbolic.
    reset();
    unsafe {
        NM[0] = k0;
        STAND[0] = any_value();
        let mut i = 0;
        while i < 3 {
            if i < k0 {
                TACT[0][i] = tact0 & (1 << i) != 0;
                let c = 1 + i;
                NM[c] = k1;
                STAND[c] = any_value();
                let mut j = 0;
                while j < 3 {
                    if j < k1 {
                        TACT[c][j] = tact1 & (1 << j) != 0;
                        let g = c * B + j + 1;
                        NM[g] = 1;
                        STAND[g] = any_value();
                    }
                    j += 1;
                }
            }
            i += 1;
        }
    }
    let mut game = dummy_game_noloop();
    let rd: u8 = kani::any();
    kani::assume(rd < 200);
    let (alpha, beta) = any_window();
    let v = quiescence_reference(0, 0);
    let r = sh::quiescence_search(&mut game, alpha, beta, rd);
    unsafe {
        assert!(PROTOCOL_OK && DEPTH == 0, "[C03] the search does not take back the moves it plays");
    }
    assert!(spec::ab_contract(v, alpha, beta, r), "[C09] the capture search does not return stand-pat / best tactical line");
    if witness {
        assert!(false, "[witness] end of harness reached");
    }
    std::mem::forget(game);
}

/// C10: leaf rules when a node has no move at all (quiescence and interior node).
pub fn no_moves_body(which: u8) {
    reset();
    unsafe {
        NM[0] = 0;
        STAND[0] = any_value();
        KING_EXISTS[0] = kani::any();
        IN_CHECK[0] = kani::any();
    }
    let mut game = if which == 0 { dummy_game() } else { dummy_game_noloop() };
    let rd: u8 = kani::any();
    kani::assume(rd < 30);
    let (alpha, beta) = any_window();
    let dead = unsafe { !(KING_EXISTS[0] && !IN_CHECK[0]) };
    if which == 0 {
        let mut table: TranspositionTable = HashMap::with_capacity_and_hasher(8, BuildNoHashHasher::default());
        let flag = AtomicBool::new(true);
        let mut killers: [Option<Move>; 32] = [None; 32];
        let mut history = [0u16; 64 * 12];
        let r = sh::get_best_move_score(&mut game, &mut table, &flag, 2, rd, alpha, beta, &mut killers, &mut history);
        let want = if dead { i16::MIN + 100 + rd as i16 } else { 0 };
        assert!(r == Some(want), "[C10] checkmate / stalemate is not scored as loss-by-distance / draw");
        // a real mate is beyond the driver's stop threshold, the shallow pseudo-mates are not
        assert!(i16::MIN + 100 + (rd as i16) < i16::MIN + 1000, "[C10] mate score is not beyond the stop threshold");
        std::mem::forget(table);
    } else {
        let r = sh::quiescence_search(&mut game, alpha, beta, rd);
        let stand = unsafe { STAND[0] };
        // stand-pat first (fail-hard), then the leaf rule
        if (if stand > alpha { stand } else { alpha }) >= beta {
            assert!(r == beta, "[C09] stand-pat cut-off does not return beta");
        } else {
            let want = if dead { i16::MIN + 3000 + rd as i16 } else { 0 };
            assert!(r == want, "[C10] a capture-search node without moves is not scored by the leaf rule");
        }
    }
    std::mem::forget(game);
}

macro_rules! s_instance {
    ($name:ident, $body:ident, $($arg:expr),*) => {
        #[cfg_attr(kani, kani::proof)]
        #[cfg_attr(kani, kani::unwind(9))]
        #[cfg_attr(kani, kani::stub(crate::chess::Game::get_moves, stub_get_moves))]
        #[cfg_attr(kani, kani::stub(crate::chess::Game::push, stub_push))]
        #[cfg_attr(kani, kani::stub(crate::chess::Game::pop, stub_pop))]
        #[cfg_attr(kani, kani::stub(crate::chess::Game::hash, stub_hash))]
        #[cfg_attr(kani, kani::stub(crate::chess::Game::score, stub_score))]
        #[cfg_attr(kani, kani::stub(crate::chess::Game::player, stub_player))]
        #[cfg_attr(kani, kani::stub(crate::chess::Game::king_exists, stub_king_exists))]
        #[cfg_attr(kani, kani::stub(crate::chess::Game::is_targeted, stub_is_targeted))]
        #[cfg_attr(kani, kani::stub(crate::search::get_best_move_score_depth_1, stub_depth_1))]
        #[cfg_attr(kani, kani::stub(f64::powf, stub_powf))]
        pub fn $name() {
            $body($($arg),*)
        }
    };
}

macro_rules! q_instance {
    ($name:ident, $body:ident, $($arg:expr),*) => {
        #[cfg_attr(kani, kani::proof)]
        #[cfg_attr(kani, kani::unwind(4))]
        #[cfg_attr(kani, kani::stub(crate::chess::Game::get_moves, stub_get_moves_q))]
        #[cfg_attr(kani, kani::stub(crate::chess::Game::push, stub_push_q))]
        #[cfg_attr(kani, kani::stub(crate::chess::Game::pop, stub_pop))]
        #[cfg_attr(kani, kani::stub(crate::chess::Game::hash, stub_hash))]
        #[cfg_attr(kani, kani::stub(crate::chess::Game::score, stub_score))]
        #[cfg_attr(kani, kani::stub(crate::chess::Game::player, stub_player))]
        #[cfg_attr(kani, kani::stub(crate::chess::Game::king_exists, stub_king_exists))]
        #[cfg_attr(kani, kani::stub(crate::chess::Game::is_targeted, stub_is_targeted))]
        pub fn $name() {
            $body($($arg),*)
        }
    };
}

macro_rules! d1_instance {
    ($name:ident, $body:ident, $($arg:expr),*) => {
        #[cfg_attr(kani, kani::proof)]
        #[cfg_attr(kani, kani::unwind(9))]
        #[cfg_attr(kani, kani::stub(crate::chess::Game::get_moves, stub_get_moves))]
        #[cfg_attr(kani, kani::stub(crate::chess::Game::push, stub_push))]
        #[cfg_attr(kani, kani::stub(crate::chess::Game::pop, stub_pop))]
        #[cfg_attr(kani, kani::stub(crate::chess::Game::hash, stub_hash))]
        #[cfg_attr(kani, kani::stub(crate::chess::Game::score, stub_score))]
        #[cfg_attr(kani, kani::stub(crate::chess::Game::player, stub_player))]
        #[cfg_attr(kani, kani::stub(crate::chess::Game::king_exists, stub_king_exists))]
        #[cfg_attr(kani, kani::stub(crate::chess::Game::is_targeted, stub_is_targeted))]
        #[cfg_attr(kani, kani::stub(crate::search::quiescence_search, stub_quiescence))]
        pub fn $name() {
            $body($($arg),*)
        }
    };
}

// interior ply: k children, killer = index of the killer move (B = none)
s_instance!(c09_node_k1, node_body, 1, B, false);
s_instance!(c09_node_k2, node_body, 2, B, false);
s_instance!(c09_node_k3, node_body, 3, B, false);
s_instance!(c09_node_k4, node_body, 4, B, false);
s_instance!(c09_node_k5, node_body, 5, B, false);
s_instance!(c09_node_k4_killer3, node_body, 4, 3, false);
s_instance!(c09_node_k4_killer1, node_body, 4, 1, false);
s_instance!(c09_node_witness, node_body, 4, B, true);
s_instance!(c10_no_moves_node, no_moves_body, 0);

macro_rules! sn_instance {
    ($name:ident, $body:ident) => {
        #[cfg_attr(kani, kani::proof)]
        #[cfg_attr(kani, kani::unwind(9))]
        #[cfg_attr(kani, kani::stub(crate::chess::Game::get_moves, stub_get_moves))]
        #[cfg_attr(kani, kani::stub(crate::chess::Game::push, stub_push))]
        #[cfg_attr(kani, kani::stub(crate::chess::Game::pop, stub_pop))]
        #[cfg_attr(kani, kani::stub(crate::chess::Game::hash, stub_hash))]
        #[cfg_attr(kani, kani::stub(crate::chess::Game::score, stub_score))]
        #[cfg_attr(kani, kani::stub(crate::chess::Game::player, stub_player))]
        #[cfg_attr(kani, kani::stub(crate::chess::Game::king_exists, stub_king_exists))]
        #[cfg_attr(kani, kani::stub(crate::chess::Game::is_targeted, stub_is_targeted))]
        #[cfg_attr(kani, kani::stub(crate::search::get_best_move_score_depth_1, stub_depth_1))]
        #[cfg_attr(kani, kani::stub(crate::search::quiescence_search, stub_quiescence))]
        pub fn $name() {
            $body()
        }
    };
}

sn_instance!(c07_node_stopped, stopped_node_body);

d1_instance!(c09_depth1_k1, depth1_body, 1, false);
d1_instance!(c09_depth1_k2, depth1_body, 2, false);
d1_instance!(c09_depth1_k3, depth1_body, 3, false);
d1_instance!(c09_depth1_k5, depth1_body, 5, false);
d1_instance!(c10_depth1_no_moves, depth1_body, 0, false);
d1_instance!(c09_depth1_witness, depth1_body, 3, true);

q_instance!(c09_quiescence_1_1, quiescence_body, 1, 1, 0b1, 0b1, false);
q_instance!(c09_quiescence_1_0_flat, quiescence_body, 1, 1, 0, 0, false);
q_instance!(c09_quiescence_1_1_onelevel, quiescence_body, 1, 1, 0b1, 0, false);
q_instance!(c09_quiescence_2_2_all, quiescence_body, 2, 2, 0b11, 0b11, false);
q_instance!(c09_quiescence_2_2_mixed, quiescence_body, 2, 2, 0b10, 0b01, false);
q_instance!(c09_quiescence_3_2_all, quiescence_body, 3, 2, 0b111, 0b11, false);
q_instance!(c09_quiescence_3_2_mixed, quiescence_body, 3, 2, 0b101, 0b10, false);
q_instance!(c09_quiescence_3_3_none, quiescence_body, 3, 3, 0, 0, false);
q_instance!(c09_quiescence_witness, quiescence_body, 1, 1, 0b1, 0b1, true);
q_instance!(c10_no_moves_quiescence, no_moves_body, 1);

// ---------------------------------------------------------------- root: get_best_move_entry

pub const REP_NONE: u8 = 0; // no repetition pattern in the move record
pub const REP_IN_LIST: u8 = 1; // the move that would repeat is root move 1
pub const REP_NOT_IN_LIST: u8 = 2; // pattern present, but the repeating move is not a root move
pub const REP_MOVE_0: u8 = 3; // the move that would repeat is root move 0

pub const ENTRY_NONE: usize = 99; // no table entry for the root
pub const ENTRY_PV_NONE: usize = 98; // an entry without a move (only legal for a root without moves)

/// Real `get_best_move_entry` over a root with k moves; `get_best_move_score` replaced by the
/// contract stub (which may also report "stopped" from an arbitrary call on); the move record
/// and a pre-existing root entry (any depth / flag / score, cached move = root move `entry_pv`)
/// as given.
pub fn entry_body(k: usize, rep: u8, entry_pv: usize, witness: bool) {
    entry_body_hit(k, rep, entry_pv, witness, false)
}

/// `force_hit`: the pre-existing root entry is exact and at least as deep as the request, so a
/// root that gets as far as the table look-up returns at once (keeps wrong paths short).
pub fn entry_body_hit(k: usize, rep: u8, entry_pv: usize, witness: bool, force_hit: bool) {
    reset();
    unsafe {
        NM[0] = k;
        let mut i = 0;
        while i < B {
            if i < k {
                VAL[1 + i] = any_value();
            }
            i += 1;
        }
        ABORT_AT = kani::any();
    }
    let mut game = dummy_game();
    if rep != REP_NONE {
        let a = abstract_move(4, true, true);
        let r = if rep == REP_IN_LIST {
            abstract_move(1, false, true)
        } else if rep == REP_MOVE_0 {
            abstract_move(0, false, true)
        } else {
            abstract_move(3, true, false)
        };
        let x = abstract_move(2, true, false);
        game.verif_set_move_stack(vec![a, r, x, x, a]);
    }
    let mut table: TranspositionTable = HashMap::with_capacity_and_hasher(8, BuildNoHashHasher::default());
    let e_depth: u8 = kani::any();
    let e_flag: u8 = kani::any();
    let e_score: i16 = kani::any();
    kani::assume(e_flag <= 2 && e_depth >= 1);
    if entry_pv != ENTRY_NONE {
        let pv = if entry_pv == ENTRY_PV_NONE { None } else { Some(abstract_move(entry_pv, false, true)) };
        table.insert(1000, sh::entry(e_score, pv, e_depth, e_flag));
    }
    let flag = AtomicBool::new(true);
    let depth: u8 = kani::any();
    kani::assume(depth >= 1);
    if force_hit {
        kani::assume(e_flag == sh::EXACT && e_depth >= depth);
    }
    let mut history = [0u16; 64 * 12];

    let result = crate::search::get_best_move_entry(game, &flag, depth, &mut table, &mut history);

    let aborted = unsafe { CALLS > ABORT_AT };
    unsafe {
        assert!(WINDOW_OK, "[C09] a root child is searched with an inverted window");
        assert!(MEMBER_OK, "[C06] the root plays a move that is not in its move list");
        assert!(CALLS_AFTER_ABORT == 0, "[C07] the root keeps expanding children after the stop was reported");
        assert!(NODE_RD_OK, "[C10] the root's children are not searched at distance 1 (mate distances would be wrong)");
        // interior nodes index the per-ply killer table by their distance from the root, which
        // reaches depth - 2: the table the root allocates must be that long
        if CALLS > 0 {
            assert!(KILLERS_LEN as u64 + 2 > depth as u64, "[C08] the per-ply killer table is shorter than the requested depth (deep searches crash)");
        }
    }
    match result {
        None => assert!(aborted, "[C07] the root reports a stop although no child did"),
        Some((mv, score, only)) => {
            assert!(!aborted, "[C07] the root returns a result although a child reported the stop");
            let cached_hit = entry_pv != ENTRY_NONE && e_depth >= depth && e_flag == sh::EXACT;
            if k == 1 {
                assert!(only && mv == Some(abstract_move(0, false, true)), "[C06] single reply is not returned as the move");
            } else if cached_hit {
                let pv = if entry_pv == ENTRY_PV_NONE { None } else { Some(abstract_move(entry_pv, false, true)) };
                assert!(mv == pv && score == e_score && !only, "[C06] cached root result is not returned as stored");
            } else {
                assert!(!only, "[C06] several replies reported as a single reply");
                // the moves actually considered: all root moves except the one that would repeat
                let skip = if rep == REP_IN_LIST && k > 1 {
                    1
                } else if rep == REP_MOVE_0 {
                    0
                } else {
                    B
                };
                let mut best = i16::MIN + 1;
                let mut any_move = false;
                let mut i = 0;
                while i < B {
                    if i < k && i != skip {
                        any_move = true;
                        let c = unsafe { -VAL[1 + i] };
                        if c > best {
                            best = c;
                        }
                    }
                    i += 1;
                }
                match mv {
                    None => assert!(!any_move, "[C06] no move reported although the position has moves"),
                    Some(m) => {
                        let j = move_index(&m);
                        assert!(j < k, "[C06] the reported move is not one of the root's moves");
                        assert!(j != skip, "[C06] the move excluded for repetition is reported");
                        assert!(unsafe { -VAL[1 + j] } == score, "[C09] the reported move does not have the reported score");
                    }
                }
                if any_move {
                    assert!(mv.is_some(), "[C06] no move reported although the position has moves");
                    assert!(score == best, "[C09] pruning at the root changes the best score");
                }
                // what the root leaves in the table
                match table.get(&1000) {
                    None => assert!(false, "[C06] the root leaves no table entry"),
                    Some(e) => {
                        let (s2, pv2, d2, f2) = sh::entry_parts(e);
                        let kept_old = entry_pv != ENTRY_NONE && e_depth > depth;
                        if !kept_old {
                            assert!(pv2 == mv && s2 == score && d2 == depth && f2 == sh::EXACT, "[C06] the root's table entry differs from its result");
                        }
                    }
                }
            }
        }
    }
    if witness {
        kani::assume(result.is_some());
        assert!(false, "[witness] end of harness reached");
    }
    std::mem::forget(table);
}

macro_rules! e_instance {
    ($name:ident, $($arg:expr),*) => {
        #[cfg_attr(kani, kani::proof)]
        #[cfg_attr(kani, kani::unwind(9))]
        #[cfg_attr(kani, kani::stub(crate::chess::Game::get_moves, stub_get_moves))]
        #[cfg_attr(kani, kani::stub(crate::chess::Game::push, stub_push))]
        #[cfg_attr(kani, kani::stub(crate::chess::Game::pop, stub_pop))]
        #[cfg_attr(kani, kani::stub(crate::chess::Game::hash, stub_hash))]
        #[cfg_attr(kani, kani::stub(crate::search::get_best_move_score, stub_node))]
        #[cfg_attr(kani, kani::stub(f64::powf, stub_powf))]
        pub fn $name() {
            entry_body($($arg),*)
        }
    };
}

e_instance!(c06_entry_k0, 0, REP_NONE, ENTRY_NONE, false);
e_instance!(c06_entry_k0_cached, 0, REP_NONE, ENTRY_PV_NONE, false);
e_instance!(c06_entry_k1, 1, REP_NONE, ENTRY_NONE, false);
e_instance!(c06_entry_k1_cached, 1, REP_NONE, 0, false);
e_instance!(c06_entry_k2, 2, REP_NONE, ENTRY_NONE, false);
e_instance!(c06_entry_k2_rep, 2, REP_IN_LIST, ENTRY_NONE, false);
e_instance!(c06_entry_k3_cached1, 3, REP_NONE, 1, false);
e_instance!(c06_entry_k4, 4, REP_NONE, ENTRY_NONE, false);
e_instance!(c06_entry_k4_cached3, 4, REP_NONE, 3, false);
e_instance!(c06_entry_k4_rep, 4, REP_IN_LIST, ENTRY_NONE, false);
e_instance!(c06_entry_k4_rep_cached1, 4, REP_IN_LIST, 1, false);
e_instance!(c06_entry_k4_rep_other, 4, REP_NOT_IN_LIST, 2, false);
e_instance!(c06_entry_k5, 5, REP_NONE, ENTRY_NONE, false);
e_instance!(c06_entry_k1_rep0, 1, REP_MOVE_0, ENTRY_NONE, false);
e_instance!(c06_entry_witness, 1, REP_NONE, ENTRY_NONE, true);

/// C08, cheap: the root hands its killer table to the first child; the stub reports "stopped" at
/// once, so the root returns before it touches the table -- only the length of the killer table
/// (vs. the requested depth, any 1..255) is looked at.
pub fn killers_body(k: usize) {
    reset();
    unsafe {
        NM[0] = k;
        ABORT_AT = 0;
    }
    let game = dummy_game();
    let mut table: TranspositionTable = HashMap::with_capacity_and_hasher(8, BuildNoHashHasher::default());
    let flag = AtomicBool::new(true);
    let depth: u8 = kani::any();
    kani::assume(depth >= 1);
    let mut history = [0u16; 64 * 12];
    let result = crate::search::get_best_move_entry(game, &flag, depth, &mut table, &mut history);
    unsafe {
        assert!(result.is_none(), "[C07] the root returns a result although its first child reported the stop");
        assert!(CALLS == 1 && CALLS_AFTER_ABORT == 0, "[C07] the root keeps expanding children after the stop was reported");
        assert!(KILLERS_LEN as u64 + 2 > depth as u64, "[C08] the per-ply killer table is shorter than the requested depth (deep searches crash)");
        assert!(NODE_RD_OK, "[C10] the root's children are not searched at distance 1 (mate distances would be wrong)");
    }
    std::mem::forget(table);
}

macro_rules! e2_instance {
    ($name:ident, $body:ident, $($arg:expr),*) => {
        #[cfg_attr(kani, kani::proof)]
        #[cfg_attr(kani, kani::unwind(9))]
        #[cfg_attr(kani, kani::stub(crate::chess::Game::get_moves, stub_get_moves))]
        #[cfg_attr(kani, kani::stub(crate::chess::Game::push, stub_push))]
        #[cfg_attr(kani, kani::stub(crate::chess::Game::pop, stub_pop))]
        #[cfg_attr(kani, kani::stub(crate::chess::Game::hash, stub_hash))]
        #[cfg_attr(kani, kani::stub(crate::search::get_best_move_score, stub_node))]
        pub fn $name() {
            $body($($arg),*)
        }
    };
}

e2_instance!(c06_entry_k1_rep0_hit, entry_body_hit, 1, REP_MOVE_0, 0, false, true);
e2_instance!(c08_entry_killers_k2, killers_body, 2);
e2_instance!(c08_entry_killers_k4, killers_body, 4);

/// C07: the stop flag is polled at EVERY node entry, whatever the remaining depth: a node
/// entered after the stop reports "stopped" without generating moves, searching or storing.
pub fn stopped_node_body() {
    reset();
    unsafe {
        NM[0] = 3;
    }
    let mut game = dummy_game();
    let mut table: TranspositionTable = HashMap::with_capacity_and_hasher(8, BuildNoHashHasher::default());
    let flag = AtomicBool::new(false);
    let remaining: u8 = kani::any();
    kani::assume(remaining <= 3);
    let rd: u8 = kani::any();
    kani::assume(rd < 30);
    let (alpha, beta) = any_window();
    let mut killers: [Option<Move>; 256] = [None; 256];
    let mut history = [0u16; 64 * 12];
    let r = sh::get_best_move_score(&mut game, &mut table, &flag, remaining, rd, alpha, beta, &mut killers, &mut history);
    unsafe {
        assert!(r.is_none(), "[C07] a node entered after the stop still returns a score");
        assert!(CALLS == 0 && DEPTH == 0 && !GEN_CALLED, "[C07] a node entered after the stop still generates or searches moves");
    }
    std::mem::forget(table);
    std::mem::forget(game);
}

// ---------------------------------------------------------------- driver: get_best_move_until_stop

static mut E_CALLS: usize = 0;
static mut E_ABORT_AT: usize = usize::MAX;
static mut E_LIMIT: u8 = 255;
static mut E_LIMIT_OK: bool = true;
static mut E_LAST: Option<Move> = None;
static mut E_K: usize = 0;
static mut E_STOP_SEEN: bool = false; // a completed iteration already told the driver to stop
static mut E_CALLED_AFTER_STOP: bool = false;
static mut E_DEPTH_PREV: u8 = 0;
static mut E_DEPTH_OK: bool = true;
static mut E_STORE: bool = false; // the root stub also stores its result in the table, as the real root does
static mut PV_PUSHES: usize = 0;

pub fn stub_entry(
    game: Game,
    _flag: &AtomicBool,
    depth: u8,
    table: &mut TranspositionTable,
    _history: &mut [u16; 64 * 12],
) -> Option<(Option<Move>, Score, bool)> {
    std::mem::forget(game);
    unsafe {
        if depth > E_LIMIT || depth == 0 {
            E_LIMIT_OK = false;
        }
        if E_CALLS > 0 && depth != E_DEPTH_PREV.wrapping_add(1) {
            E_DEPTH_OK = false;
        }
        E_DEPTH_PREV = depth;
        if E_STOP_SEEN {
            E_CALLED_AFTER_STOP = true;
        }
        let call = E_CALLS;
        E_CALLS += 1;
        if call >= E_ABORT_AT {
            return None;
        }
        let score: i16 = kani::any();
        let only: bool = kani::any();
        let j: usize = kani::any();
        let mv = if E_K == 0 {
            None
        } else {
            kani::assume(j < E_K);
            Some(abstract_move(j, false, true))
        };
        kani::assume(!only || E_K == 1);
        if E_K == 0 {
            kani::assume(score == i16::MIN + 1);
        }
        E_LAST = mv;
        if E_STORE {
            table.insert(1000, sh::entry(score, mv, depth, sh::EXACT));
        }
        if only || score > i16::MAX - 1000 || score < i16::MIN + 1000 || depth == E_LIMIT {
            E_STOP_SEEN = true;
        }
        Some((mv, score, only))
    }
}

pub const NO_LIMIT: u8 = 0;

/// Real `get_best_move_until_stop`; `get_best_move_entry` replaced by a stub returning arbitrary
/// completed iterations (any score, any root move) or "stopped" from an arbitrary call on.
/// `limit`: depth limit (NO_LIMIT = none); the table may hold an exact root entry of any depth
/// left by earlier searches, and entries for the positions after it (for the printed line).
/// C18: the root stub stores its result like the real root; the driver then reconstructs the
/// line by table walk + push.  One iteration (limit 1), k root moves.
pub fn driver_pv_body(k: usize) {
    unsafe {
        E_STORE = true;
    }
    driver_body(k, 1, 0, false);
    unsafe {
        assert!(E_ABORT_AT == 0 || PV_PUSHES >= 1 || k == 0, "[C18] the printed line does not start with the move just found");
    }
}

pub fn driver_body(k: usize, limit: u8, root_entry_depth: u8, witness: bool) {
    reset();
    let max_depth = if limit == NO_LIMIT { None } else { Some(limit) };
    unsafe {
        E_K = k;
        NM[0] = k;
        let mut i = 0;
        while i < B {
            NM[1 + i] = 2;
            i += 1;
        }
        E_ABORT_AT = kani::any();
        E_LIMIT = if limit == NO_LIMIT { 255 } else { limit };
        if limit == NO_LIMIT {
            // an unlimited search is observed for three iterations: some iteration up to the
            // third reports a forced mate / single reply, or the stop arrives
            kani::assume(E_ABORT_AT <= 3);
        }
    }
    let game = dummy_game();
    let mut table: TranspositionTable = HashMap::with_capacity_and_hasher(8, BuildNoHashHasher::default());
    if root_entry_depth > 0 && k > 0 {
        // An exact root entry left by an earlier, deeper search (concrete per instance: a symbolic
        // entry makes the real hashbrown insert intractable).  Table invariant T: the cached move
        // is one of the root's moves.
        table.insert(1000, sh::entry(17, Some(abstract_move(0, false, true)), root_entry_depth, sh::EXACT));
    }
    let flag = AtomicBool::new(true);

    let result = crate::search::get_best_move_until_stop(&game, &mut table, &flag, max_depth);

    unsafe {
        assert!(E_LIMIT_OK, "[C08] the driver searches deeper than the depth limit (or at depth 0)");
        assert!(E_DEPTH_OK, "[C08] the driver does not deepen by one ply per iteration");
        assert!(!E_CALLED_AFTER_STOP, "[C08] the driver keeps searching after the limit / a forced mate / a single reply");
        assert!(MEMBER_OK, "[C18] the printed line plays a move that is not legal where it is played");
        let first_aborted = E_ABORT_AT == 0;
        if first_aborted {
            if k > 0 {
                assert!(result.is_some(), "[C07] stop before the first iteration completes yields no move although moves exist");
            }
        } else {
            assert!(result == E_LAST, "[C06] the driver does not return the move of the last completed iteration");
        }
        if let Some(m) = result {
            assert!(move_index(&m) < k, "[C06] the announced move is not a legal move of the root");
        } else {
            assert!(k == 0 || first_aborted, "[C06] no move announced although the position has moves");
        }
    }
    if witness {
        unsafe {
            kani::assume(E_CALLS >= 2);
        }
        assert!(false, "[witness] end of harness reached");
    }
    std::mem::forget(table);
    std::mem::forget(game);
}

macro_rules! dr_instance {
    ($name:ident, $($arg:expr),*) => {
        #[cfg_attr(kani, kani::proof)]
        #[cfg_attr(kani, kani::unwind(9))]
        #[cfg_attr(kani, kani::stub(crate::chess::Game::get_moves, stub_get_moves))]
        #[cfg_attr(kani, kani::stub(crate::chess::Game::push, stub_push))]
        #[cfg_attr(kani, kani::stub(crate::chess::Game::pop, stub_pop))]
        #[cfg_attr(kani, kani::stub(crate::chess::Game::hash, stub_hash))]
        #[cfg_attr(kani, kani::stub(crate::chess::move_struct::Move::uci_notation, stub_uci_notation))]
        #[cfg_attr(kani, kani::stub(crate::search::get_best_move_entry, stub_entry))]
        pub fn $name() {
            driver_body($($arg),*)
        }
    };
}

dr_instance!(c08_driver_limit1_fresh, 3, 1, 0, false);
dr_instance!(c08_driver_limit2_fresh, 3, 2, 0, false);
dr_instance!(c08_driver_limit3_fresh, 3, 3, 0, false);
dr_instance!(c08_driver_limit2_cached4, 3, 2, 4, false);
dr_instance!(c08_driver_limit3_cached2, 3, 3, 2, false);
dr_instance!(c08_driver_unlimited_fresh, 3, NO_LIMIT, 0, false);
dr_instance!(c08_driver_unlimited_cached254, 3, NO_LIMIT, 254, false);
dr_instance!(c06_driver_no_moves, 0, 2, 0, false);
dr_instance!(c06_driver_single_reply, 1, 3, 0, false);
dr_instance!(c08_driver_witness, 3, 3, 0, true);

macro_rules! drp_instance {
    ($name:ident, $k:expr) => {
        #[cfg_attr(kani, kani::proof)]
        #[cfg_attr(kani, kani::unwind(9))]
        #[cfg_attr(kani, kani::stub(crate::chess::Game::get_moves, stub_get_moves))]
        #[cfg_attr(kani, kani::stub(crate::chess::Game::push, stub_push_pv))]
        #[cfg_attr(kani, kani::stub(crate::chess::Game::pop, stub_pop))]
        #[cfg_attr(kani, kani::stub(crate::chess::Game::hash, stub_hash))]
        #[cfg_attr(kani, kani::stub(crate::chess::move_struct::Move::uci_notation, stub_uci_notation))]
        #[cfg_attr(kani, kani::stub(crate::search::get_best_move_entry, stub_entry))]
        pub fn $name() {
            driver_pv_body($k)
        }
    };
}

drp_instance!(c18_driver_pv_k3, 3);
