//! Independent statement of the rules the properties refer to.
//!
//! Written from the FIDE laws, the UCI text conventions, the published layout of
//! `zobrist_bytes.bin` and the tables in `scores.rs` -- not from the engine's code.
//! Formulations are deliberately the *opposite* of the engine's where a choice exists
//! (attack detection is attacker-centric with an explicit "squares between are empty"
//! test; move validity is a predicate over (from, to), not a generator).
//!
//! Encoding: a square is `row * 8 + col` (row 0 = rank 1, col 0 = file a).
//! A square content is a code: 0 = empty, otherwise `1 + kind + 6 * black`
//! with kind 0 = queen, 1 = rook, 2 = bishop, 3 = knight, 4 = pawn, 5 = king
//! (the kind order is the order of the key rows in the key file).

pub const QUEEN: u8 = 0;
pub const ROOK: u8 = 1;
pub const BISHOP: u8 = 2;
pub const KNIGHT: u8 = 3;
pub const PAWN: u8 = 4;
pub const KING: u8 = 5;

pub const EMPTY: u8 = 0;

#[inline]
pub const fn code(kind: u8, black: bool) -> u8 {
    1 + kind + if black { 6 } else { 0 }
}
#[inline]
pub const fn kind_of(c: u8) -> u8 {
    (c - 1) % 6
}
#[inline]
pub const fn is_black(c: u8) -> bool {
    c >= 7
}
#[inline]
pub const fn is_white(c: u8) -> bool {
    c >= 1 && c <= 6
}
#[inline]
pub const fn owned_by(c: u8, white: bool) -> bool {
    if white {
        is_white(c)
    } else {
        is_black(c)
    }
}
#[inline]
pub const fn is_kind(c: u8, kind: u8, white: bool) -> bool {
    c == code(kind, !white)
}

/// A chess position: everything the rules care about.
#[derive(Clone, Copy, PartialEq, Eq, Debug)]
pub struct Pos {
    pub board: [u8; 64],
    pub white_to_move: bool,
    /// castling rights in the order K, Q, k, q
    pub castle: [bool; 4],
    /// file of the pawn that just made a double step and can be taken en passant, 8 = none
    pub ep: u8,
}

/// Move kinds of the spec.
#[derive(Clone, Copy, PartialEq, Eq, Debug)]
pub enum MK {
    Normal,
    /// promotion to the given kind
    Promo(u8),
    EnPassant,
    CastleShort,
    CastleLong,
}

#[derive(Clone, Copy, PartialEq, Eq, Debug)]
pub struct SMove {
    pub from: u8,
    pub to: u8,
    pub mk: MK,
}

#[inline]
pub const fn row(sq: usize) -> i8 {
    (sq / 8) as i8
}
#[inline]
pub const fn col(sq: usize) -> i8 {
    (sq % 8) as i8
}
#[inline]
const fn iabs(x: i8) -> i8 {
    if x < 0 {
        -x
    } else {
        x
    }
}
#[inline]
const fn sign(x: i8) -> i8 {
    if x < 0 {
        -1
    } else if x > 0 {
        1
    } else {
        0
    }
}

/// All squares strictly between `from` and `to` (which must share a line) are empty.
pub fn between_empty(board: &[u8; 64], from: usize, to: usize) -> bool {
    let dr = row(to) - row(from);
    let dc = col(to) - col(from);
    let sr = sign(dr);
    let sc = sign(dc);
    let n = if iabs(dr) > iabs(dc) { iabs(dr) } else { iabs(dc) };
    let mut k = 1;
    while k < n {
        let r = row(from) + k * sr;
        let c = col(from) + k * sc;
        if board[(r * 8 + c) as usize] != EMPTY {
            return false;
        }
        k += 1;
    }
    true
}

/// Does the piece standing on `from` attack square `to` (FIDE 3.1-3.8: the squares a piece
/// could capture on, irrespective of what stands on `to`)?
/// Written geometry-first: the relation between the two squares is decided before the
/// board is read, so that for concrete squares most pairs cost nothing.
pub fn attacks(board: &[u8; 64], from: usize, to: usize) -> bool {
    if from == to {
        return false;
    }
    let dr = row(to) - row(from);
    let dc = col(to) - col(from);
    let adr = iabs(dr);
    let adc = iabs(dc);
    let straight = dr == 0 || dc == 0;
    let diagonal = adr == adc;
    let knight = (adr == 1 && adc == 2) || (adr == 2 && adc == 1);
    if !(straight || diagonal || knight) {
        return false;
    }
    let c = board[from];
    if c == EMPTY {
        return false;
    }
    let k = kind_of(c);
    if knight {
        return k == KNIGHT;
    }
    let adjacent = adr <= 1 && adc <= 1;
    if k == KING {
        return adjacent;
    }
    if k == PAWN {
        return adc == 1 && dr == if is_white(c) { 1 } else { -1 };
    }
    let slider = if straight { k == ROOK || k == QUEEN } else { k == BISHOP || k == QUEEN };
    slider && (adjacent || between_empty(board, from, to))
}

/// Is `sq` attacked by any piece of the given colour?
pub fn attacked(board: &[u8; 64], sq: usize, by_white: bool) -> bool {
    let mut r = 0;
    while r < 8 {
        let mut c = 0;
        while c < 8 {
            let from = r * 8 + c;
            if owned_by(board[from], by_white) && attacks(board, from, sq) {
                return true;
            }
            c += 1;
        }
        r += 1;
    }
    false
}

/// Square of the (first) king of the given colour, 64 if there is none.
pub fn king_square(board: &[u8; 64], white: bool) -> usize {
    let mut r = 0;
    while r < 8 {
        let mut c = 0;
        while c < 8 {
            if board[r * 8 + c] == code(KING, !white) {
                return r * 8 + c;
            }
            c += 1;
        }
        r += 1;
    }
    64
}

pub fn count(board: &[u8; 64], what: u8) -> usize {
    let mut n = 0;
    let mut r = 0;
    while r < 8 {
        let mut c = 0;
        while c < 8 {
            if board[r * 8 + c] == what {
                n += 1;
            }
            c += 1;
        }
        r += 1;
    }
    n
}

/// Geometric validity of a move of the side to move (FIDE article 3, without the
/// "own king must not be left attacked" clause 3.9.2, but with all castling conditions).
pub fn pseudo(p: &Pos, from: usize, to: usize, mk: MK) -> bool {
    let w = p.white_to_move;
    let c = p.board[from];
    if !owned_by(c, w) || from == to {
        return false;
    }
    let t = p.board[to];
    let k = kind_of(c);
    let fwd: i8 = if w { 1 } else { -1 };
    let dr = row(to) - row(from);
    let dc = col(to) - col(from);
    let first_row: i8 = if w { 1 } else { 6 };
    let last_row: i8 = if w { 7 } else { 0 };
    let ep_row: i8 = if w { 4 } else { 3 };
    let home: usize = if w { 4 } else { 60 };
    match mk {
        MK::Normal => {
            if owned_by(t, w) {
                return false;
            }
            if k == PAWN {
                if row(to) == last_row {
                    return false; // must promote
                }
                if dc == 0 && dr == fwd {
                    t == EMPTY
                } else if dc == 0 && dr == 2 * fwd {
                    row(from) == first_row
                        && t == EMPTY
                        && p.board[(from as i8 + 8 * fwd) as usize] == EMPTY
                } else if iabs(dc) == 1 && dr == fwd {
                    owned_by(t, !w)
                } else {
                    false
                }
            } else {
                attacks(&p.board, from, to)
            }
        }
        MK::Promo(np) => {
            if k != PAWN || row(to) != last_row || dr != fwd {
                return false;
            }
            if !(np == QUEEN || np == ROOK || np == BISHOP || np == KNIGHT) {
                return false;
            }
            if dc == 0 {
                t == EMPTY
            } else if iabs(dc) == 1 {
                owned_by(t, !w)
            } else {
                false
            }
        }
        MK::EnPassant => {
            k == PAWN
                && p.ep < 8
                && row(from) == ep_row
                && dr == fwd
                && iabs(dc) == 1
                && col(to) == p.ep as i8
                && t == EMPTY
                && p.board[(ep_row * 8 + p.ep as i8) as usize] == code(PAWN, w)
        }
        MK::CastleShort => {
            let right = if w { p.castle[0] } else { p.castle[2] };
            right
                && from == home
                && to == home + 2
                && k == KING
                && p.board[home + 3] == code(ROOK, !w)
                && p.board[home + 1] == EMPTY
                && p.board[home + 2] == EMPTY
                && !attacked(&p.board, home, !w)
                && !attacked(&p.board, home + 1, !w)
                && !attacked(&p.board, home + 2, !w)
        }
        MK::CastleLong => {
            let right = if w { p.castle[1] } else { p.castle[3] };
            right
                && from == home
                && to == home - 2
                && k == KING
                && p.board[home - 4] == code(ROOK, !w)
                && p.board[home - 1] == EMPTY
                && p.board[home - 2] == EMPTY
                && p.board[home - 3] == EMPTY
                && !attacked(&p.board, home, !w)
                && !attacked(&p.board, home - 1, !w)
                && !attacked(&p.board, home - 2, !w)
        }
    }
}

/// The position after the move (assumes `pseudo(p, ..)`).
pub fn apply(p: &Pos, from: usize, to: usize, mk: MK) -> Pos {
    let w = p.white_to_move;
    let mut q = *p;
    let c = p.board[from];
    q.white_to_move = !w;
    q.ep = 8;
    match mk {
        MK::Normal => {
            q.board[to] = c;
            q.board[from] = EMPTY;
            if kind_of(c) == PAWN && iabs(row(to) - row(from)) == 2 {
                let enemy_pawn = code(PAWN, w);
                let left = col(to) > 0 && p.board[to - 1] == enemy_pawn;
                let right = col(to) < 7 && p.board[to + 1] == enemy_pawn;
                if left || right {
                    q.ep = col(to) as u8;
                }
            }
        }
        MK::Promo(np) => {
            q.board[to] = code(np, !w);
            q.board[from] = EMPTY;
        }
        MK::EnPassant => {
            q.board[to] = c;
            q.board[from] = EMPTY;
            q.board[row(from) as usize * 8 + col(to) as usize] = EMPTY;
        }
        MK::CastleShort => {
            q.board[to] = c;
            q.board[from] = EMPTY;
            q.board[from + 1] = p.board[from + 3];
            q.board[from + 3] = EMPTY;
        }
        MK::CastleLong => {
            q.board[to] = c;
            q.board[from] = EMPTY;
            q.board[from - 1] = p.board[from - 4];
            q.board[from - 4] = EMPTY;
        }
    }
    // A right survives only while neither its king nor its rook has left the home square
    // and the rook has not been captured there.
    let touched = |sq: usize| from == sq || to == sq;
    if touched(4) || touched(7) {
        q.castle[0] = false;
    }
    if touched(4) || touched(0) {
        q.castle[1] = false;
    }
    if touched(60) || touched(63) {
        q.castle[2] = false;
    }
    if touched(60) || touched(56) {
        q.castle[3] = false;
    }
    q
}

/// FIDE legality: geometrically valid and the mover's king is not attacked afterwards.
pub fn legal(p: &Pos, from: usize, to: usize, mk: MK) -> bool {
    if !pseudo(p, from, to, mk) {
        return false;
    }
    let q = apply(p, from, to, mk);
    let k = king_square(&q.board, p.white_to_move);
    k < 64 && !attacked(&q.board, k, !p.white_to_move)
}

/// "Sane" in the sense of the properties' quantifier, minus the clause about check
/// (callers add `!attacked(.., king of the side not to move, ..)` where they need it).
pub fn consistent(p: &Pos) -> bool {
    if count(&p.board, code(KING, false)) != 1 || count(&p.board, code(KING, true)) != 1 {
        return false;
    }
    let mut c = 0;
    while c < 8 {
        if kind_of_or(p.board[c], 99) == PAWN || kind_of_or(p.board[56 + c], 99) == PAWN {
            return false;
        }
        c += 1;
    }
    rights_consistent(p) && ep_consistent(p)
}

#[inline]
pub const fn kind_of_or(c: u8, default: u8) -> u8 {
    if c == EMPTY {
        default
    } else {
        kind_of(c)
    }
}

pub fn rights_consistent(p: &Pos) -> bool {
    let b = &p.board;
    (!p.castle[0] || (b[4] == code(KING, false) && b[7] == code(ROOK, false)))
        && (!p.castle[1] || (b[4] == code(KING, false) && b[0] == code(ROOK, false)))
        && (!p.castle[2] || (b[60] == code(KING, true) && b[63] == code(ROOK, true)))
        && (!p.castle[3] || (b[60] == code(KING, true) && b[56] == code(ROOK, true)))
}

/// An e.p. file means: the side that just moved has a pawn on its fourth rank on that file
/// and the two squares behind it are empty.
pub fn ep_consistent(p: &Pos) -> bool {
    if p.ep >= 8 {
        return p.ep == 8;
    }
    let f = p.ep as usize;
    if p.white_to_move {
        // black just played f7-f5
        p.board[4 * 8 + f] == code(PAWN, true) && p.board[5 * 8 + f] == EMPTY && p.board[6 * 8 + f] == EMPTY
    } else {
        p.board[3 * 8 + f] == code(PAWN, false) && p.board[2 * 8 + f] == EMPTY && p.board[8 + f] == EMPTY
    }
}

// ---------------------------------------------------------------------------------------------
// Hash: the published key file layout (README: "hashes consistent across versions"):
//   byte 0        BLACK_TO_MOVE      (u64 little endian)
//   byte 1        EMPTY_PLACE
//   byte 2 + 8 i  STATE[i], i in 0..256   (i = castling bits K=16,Q=32,k=64,q=128 + e.p. file, 8 = none)
//   byte 259 + 8 (12 sq + k)  PIECE[sq][k], k = kind + 6 * black
// ---------------------------------------------------------------------------------------------

pub static KEY_FILE: &[u8; 8208] = include_bytes!("/repo/zobrist_bytes.bin");

#[inline]
pub fn key_at(offset: usize) -> u64 {
    let mut v: u64 = 0;
    let mut i = 0;
    while i < 8 {
        v |= (KEY_FILE[offset + i] as u64) << (8 * i);
        i += 1;
    }
    v
}

const fn key_at_const(file: &[u8; 8208], offset: usize) -> u64 {
    let mut v: u64 = 0;
    let mut i = 0;
    while i < 8 {
        v |= (file[offset + i] as u64) << (8 * i);
        i += 1;
    }
    v
}

pub const KEY_BLACK_TO_MOVE: u64 = key_at_const(include_bytes!("/repo/zobrist_bytes.bin"), 0);
pub const KEY_EMPTY: u64 = key_at_const(include_bytes!("/repo/zobrist_bytes.bin"), 1);

/// Keys by square and content code (index 0 = empty square key).
pub static KEY_SQUARE: [[u64; 13]; 64] = {
    let file = include_bytes!("/repo/zobrist_bytes.bin");
    let mut t = [[0u64; 13]; 64];
    let mut sq = 0;
    while sq < 64 {
        t[sq][0] = key_at_const(file, 1);
        let mut k = 0;
        while k < 12 {
            t[sq][k + 1] = key_at_const(file, 259 + 8 * (12 * sq + k));
            k += 1;
        }
        sq += 1;
    }
    t
};

pub static KEY_STATE: [u64; 256] = {
    let file = include_bytes!("/repo/zobrist_bytes.bin");
    let mut t = [0u64; 256];
    let mut i = 0;
    while i < 256 {
        t[i] = key_at_const(file, 2 + 8 * i);
        i += 1;
    }
    t
};

#[inline]
pub fn state_byte(castle: &[bool; 4], ep: u8) -> u8 {
    (ep & 15)
        | if castle[0] { 16 } else { 0 }
        | if castle[1] { 32 } else { 0 }
        | if castle[2] { 64 } else { 0 }
        | if castle[3] { 128 } else { 0 }
}

pub fn hash(p: &Pos) -> u64 {
    let mut h = 0u64;
    let mut r = 0;
    while r < 8 {
        let mut c = 0;
        while c < 8 {
            let sq = r * 8 + c;
            h ^= KEY_SQUARE[sq][p.board[sq] as usize];
            c += 1;
        }
        r += 1;
    }
    if !p.white_to_move {
        h ^= KEY_BLACK_TO_MOVE;
    }
    h ^ KEY_STATE[state_byte(&p.castle, p.ep) as usize]
}

// ---------------------------------------------------------------------------------------------
// Score: sum of piece-square values (tables of scores.rs, written from White's side with
// rank 8 first), rank-flipped for White, negated for Black, both kings from one table.
// ---------------------------------------------------------------------------------------------

/// tables[kind] in kind order Q, R, B, N, P, K
pub fn pst(tables: &[&[i16; 64]; 6], c: u8, sq: usize) -> i16 {
    if c == EMPTY {
        return 0;
    }
    let t = tables[kind_of(c) as usize];
    if is_white(c) {
        t[(7 - sq / 8) * 8 + sq % 8]
    } else {
        -t[sq]
    }
}

pub fn score(tables: &[&[i16; 64]; 6], board: &[u8; 64]) -> i16 {
    let mut s: i16 = 0;
    let mut r = 0;
    while r < 8 {
        let mut c = 0;
        while c < 8 {
            s = s.wrapping_add(pst(tables, board[r * 8 + c], r * 8 + c));
            c += 1;
        }
        r += 1;
    }
    s
}

pub fn mirror(board: &[u8; 64]) -> [u8; 64] {
    let mut m = [EMPTY; 64];
    let mut r = 0;
    while r < 8 {
        let mut c = 0;
        while c < 8 {
            let x = board[r * 8 + c];
            m[(7 - r) * 8 + c] = if x == EMPTY {
                EMPTY
            } else if is_white(x) {
                x + 6
            } else {
                x - 6
            };
            c += 1;
        }
        r += 1;
    }
    m
}

// ---------------------------------------------------------------------------------------------
// Texts (fixed buffers so that the solver never sees an allocation).
// ---------------------------------------------------------------------------------------------

/// UCI long algebraic text: from, to, optional lower-case promotion letter; castling as the
/// king's two-square move.  Returns (bytes, length).
pub fn uci_text(from: usize, to: usize, mk: MK) -> ([u8; 5], usize) {
    let mut b = [0u8; 5];
    b[0] = b'a' + col(from) as u8;
    b[1] = b'1' + row(from) as u8;
    b[2] = b'a' + col(to) as u8;
    b[3] = b'1' + row(to) as u8;
    match mk {
        MK::Promo(np) => {
            b[4] = match np {
                QUEEN => b'q',
                ROOK => b'r',
                BISHOP => b'b',
                _ => b'n',
            };
            (b, 5)
        }
        _ => (b, 4),
    }
}

pub const fn piece_letter(kind: u8) -> u8 {
    match kind {
        QUEEN => b'Q',
        ROOK => b'R',
        BISHOP => b'B',
        KNIGHT => b'N',
        KING => b'K',
        _ => b'P',
    }
}

/// The move-record text of this engine's format as the property states it: piece letter
/// (none for pawns), origin file, `x` on capture, destination square, `=Q/R/B/N` on promotion
/// (promotions print only `x` + destination + `=` + piece), castling `O-O` / `O-O-O`.
pub fn pgn_text(mover: u8, from: usize, to: usize, mk: MK, capture: bool) -> ([u8; 8], usize) {
    let mut b = [0u8; 8];
    let mut n = 0;
    match mk {
        MK::CastleShort => {
            b[0] = b'O';
            b[1] = b'-';
            b[2] = b'O';
            return (b, 3);
        }
        MK::CastleLong => {
            b[0] = b'O';
            b[1] = b'-';
            b[2] = b'O';
            b[3] = b'-';
            b[4] = b'O';
            return (b, 5);
        }
        MK::Normal => {
            if kind_of(mover) != PAWN {
                b[n] = piece_letter(kind_of(mover));
                n += 1;
            }
            b[n] = b'a' + col(from) as u8;
            n += 1;
            if capture {
                b[n] = b'x';
                n += 1;
            }
            b[n] = b'a' + col(to) as u8;
            n += 1;
            b[n] = b'1' + row(to) as u8;
            n += 1;
        }
        MK::EnPassant => {
            b[n] = b'a' + col(from) as u8;
            n += 1;
            b[n] = b'x';
            n += 1;
            b[n] = b'a' + col(to) as u8;
            n += 1;
            b[n] = b'1' + row(to) as u8;
            n += 1;
        }
        MK::Promo(np) => {
            if capture {
                b[n] = b'x';
                n += 1;
            }
            b[n] = b'a' + col(to) as u8;
            n += 1;
            b[n] = b'1' + row(to) as u8;
            n += 1;
            b[n] = b'=';
            n += 1;
            b[n] = piece_letter(np);
            n += 1;
        }
    }
    (b, n)
}

pub const fn fen_letter(c: u8) -> u8 {
    let up = piece_letter(kind_of(c));
    if is_black(c) {
        up + 32
    } else {
        up
    }
}

/// Fields 1-4 of the FEN of a position plus " 0 " (the engine does not track the half-move
/// clock); the full-move number is appended by the caller.  Returns (bytes, length).
pub fn fen_text(p: &Pos) -> ([u8; 96], usize) {
    let mut b = [0u8; 96];
    let mut n = 0;
    let mut r: i8 = 7;
    while r >= 0 {
        let mut empty = 0u8;
        let mut c = 0;
        while c < 8 {
            let x = p.board[(r as usize) * 8 + c];
            if x == EMPTY {
                empty += 1;
            } else {
                if empty > 0 {
                    b[n] = b'0' + empty;
                    n += 1;
                    empty = 0;
                }
                b[n] = fen_letter(x);
                n += 1;
            }
            c += 1;
        }
        if empty > 0 {
            b[n] = b'0' + empty;
            n += 1;
        }
        if r > 0 {
            b[n] = b'/';
            n += 1;
        }
        r -= 1;
    }
    b[n] = b' ';
    n += 1;
    b[n] = if p.white_to_move { b'w' } else { b'b' };
    n += 1;
    b[n] = b' ';
    n += 1;
    let letters = [b'K', b'Q', b'k', b'q'];
    let mut any = false;
    let mut i = 0;
    while i < 4 {
        if p.castle[i] {
            b[n] = letters[i];
            n += 1;
            any = true;
        }
        i += 1;
    }
    if !any {
        b[n] = b'-';
        n += 1;
    }
    b[n] = b' ';
    n += 1;
    if p.ep < 8 {
        b[n] = b'a' + p.ep;
        n += 1;
        b[n] = if p.white_to_move { b'6' } else { b'3' };
        n += 1;
    } else {
        b[n] = b'-';
        n += 1;
    }
    b[n] = b' ';
    n += 1;
    b[n] = b'0';
    n += 1;
    b[n] = b' ';
    n += 1;
    (b, n)
}

/// The return contract of this engine's alpha-beta flavour (fail-hard low, fail-soft or
/// fail-hard high) for a node whose true (unpruned) value is `v`, asked with alpha <= beta:
///   never below alpha;  v <= alpha  ->  alpha;   alpha < v < beta  ->  v;
///   v >= beta  ->  something in [beta, v] (a lower bound that still causes the cut-off).
/// Stated so that it is inductive: a node whose children obey it, obeys it.
pub fn ab_contract(v: i16, alpha: i16, beta: i16, r: i16) -> bool {
    let hi = if v > alpha { v } else { alpha };
    r >= alpha && r <= hi && (v >= beta || r == hi) && (v < beta || r >= beta)
}

// ---------------------------------------------------------------------------------------------
// Strict FEN reader (the well-formedness the properties refer to): 4 to 6 fields; 8 ranks of
// exactly 8 files; digits 1-8; side `w` or `b`; castling: a non-empty combination of the letters K Q k q and `-`; e.p. `-` or a file letter followed by 6 (White to move) or 3
// (Black to move); optional half-move and full-move counters made of digits.
// Fields are separated by single ASCII whitespace runs; leading/trailing whitespace ignored.
// ---------------------------------------------------------------------------------------------

pub fn letter_code(ch: u8) -> u8 {
    match ch {
        b'Q' => code(QUEEN, false),
        b'R' => code(ROOK, false),
        b'B' => code(BISHOP, false),
        b'N' => code(KNIGHT, false),
        b'P' => code(PAWN, false),
        b'K' => code(KING, false),
        b'q' => code(QUEEN, true),
        b'r' => code(ROOK, true),
        b'b' => code(BISHOP, true),
        b'n' => code(KNIGHT, true),
        b'p' => code(PAWN, true),
        b'k' => code(KING, true),
        _ => EMPTY,
    }
}

pub fn is_space(ch: u8) -> bool {
    ch == b' ' || ch == b'\t' || ch == b'\n' || ch == 0x0c || ch == b'\r'
}

/// Splits into at most 7 fields; returns (starts, ends, count).
pub fn fields(text: &[u8]) -> ([usize; 7], [usize; 7], usize) {
    let mut s = [0usize; 7];
    let mut e = [0usize; 7];
    let mut n = 0;
    let mut i = 0;
    while i < text.len() {
        while i < text.len() && is_space(text[i]) {
            i += 1;
        }
        if i >= text.len() {
            break;
        }
        let start = i;
        while i < text.len() && !is_space(text[i]) {
            i += 1;
        }
        if n < 7 {
            s[n] = start;
            e[n] = i;
        }
        n += 1;
        if n >= 7 {
            break;
        }
    }
    (s, e, n)
}

pub fn parse_board(f: &[u8]) -> Option<[u8; 64]> {
    let mut board = [EMPTY; 64];
    let mut r: i32 = 7;
    let mut c: i32 = 0;
    let mut i = 0;
    while i < f.len() {
        let ch = f[i];
        if ch == b'/' {
            if c != 8 || r == 0 {
                return None;
            }
            r -= 1;
            c = 0;
        } else if ch >= b'1' && ch <= b'8' {
            c += (ch - b'0') as i32;
            if c > 8 {
                return None;
            }
        } else {
            let x = letter_code(ch);
            if x == EMPTY || c >= 8 {
                return None;
            }
            board[(r * 8 + c) as usize] = x;
            c += 1;
        }
        i += 1;
    }
    if r != 0 || c != 8 {
        return None;
    }
    Some(board)
}

pub fn all_digits(f: &[u8]) -> bool {
    if f.is_empty() {
        return false;
    }
    let mut i = 0;
    while i < f.len() {
        if f[i] < b'0' || f[i] > b'9' {
            return false;
        }
        i += 1;
    }
    true
}

pub fn parse_fen(text: &[u8]) -> Option<Pos> {
    let (s, e, n) = fields(text);
    if n < 4 || n > 6 {
        return None;
    }
    if n >= 5 && !all_digits(&text[s[4]..e[4]]) {
        return None;
    }
    if n >= 6 && !all_digits(&text[s[5]..e[5]]) {
        return None;
    }
    parse_fen_fields(&text[s[0]..e[0]], &text[s[1]..e[1]], &text[s[2]..e[2]], &text[s[3]..e[3]])
}

/// The four position fields, already split.
pub fn parse_fen_fields(bf: &[u8], side: &[u8], cf: &[u8], ef: &[u8]) -> Option<Pos> {
    let board = parse_board(bf)?;
    if side.len() != 1 || (side[0] != b'w' && side[0] != b'b') {
        return None;
    }
    let white_to_move = side[0] == b'w';
    let mut castle = [false; 4];
    // lenient on purpose: any non-empty combination of the letters K Q k q and `-` (order and
    // repeats are not judged); the rights are the letters present
    if cf.is_empty() {
        return None;
    }
    {
        let mut i = 0;
        while i < cf.len() {
            match cf[i] {
                b'K' => castle[0] = true,
                b'Q' => castle[1] = true,
                b'k' => castle[2] = true,
                b'q' => castle[3] = true,
                b'-' => {}
                _ => return None,
            }
            i += 1;
        }
    }
    let mut ep = 8u8;
    if !(ef.len() == 1 && ef[0] == b'-') {
        if ef.len() != 2 || ef[0] < b'a' || ef[0] > b'h' {
            return None;
        }
        if ef[1] != if white_to_move { b'6' } else { b'3' } {
            return None;
        }
        ep = ef[0] - b'a';
    }
    Some(Pos { board, white_to_move, castle, ep })
}

/// All legal moves of a position (native use: oracle validation by perft).
pub fn legal_moves(p: &Pos) -> Vec<SMove> {
    let mut out = Vec::new();
    for from in 0..64 {
        if !owned_by(p.board[from], p.white_to_move) {
            continue;
        }
        for to in 0..64 {
            let mut kinds = vec![MK::Normal, MK::EnPassant, MK::CastleShort, MK::CastleLong];
            kinds.extend([QUEEN, ROOK, BISHOP, KNIGHT].iter().map(|k| MK::Promo(*k)));
            for mk in kinds {
                if legal(p, from, to, mk) {
                    out.push(SMove { from: from as u8, to: to as u8, mk });
                }
            }
        }
    }
    out
}

pub fn perft(p: &Pos, depth: u32) -> u64 {
    if depth == 0 {
        return 1;
    }
    let moves = legal_moves(p);
    if depth == 1 {
        return moves.len() as u64;
    }
    let mut n = 0;
    for m in moves {
        n += perft(&apply(p, m.from as usize, m.to as usize, m.mk), depth - 1);
    }
    n
}
