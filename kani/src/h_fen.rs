//! FEN import (C17, and the importer ends of C04 / C16 / C11) and FEN export (C11).
//!
//! Import: the real `Game::new(text)` against the spec's strict reader on texts made of a
//! CONCRETE prefix and SYMBOLIC bytes (any non-blank ASCII) at stated places:
//!   fields  : side, castling and e.p. fields fully symbolic (their lengths concrete per instance)
//!   tail    : the last bytes of the board field symbolic (digits 0-9, letters, `/`, anything)
//! spec accepts  =>  Ok, same placement / side / rights / e.p. file, hash = spec hash,
//!                   score = piece-square sum;
//! spec rejects  =>  Err -- and in no case a panic (Kani's checks: asserts, overflow, bounds).
//! Stub: std::backtrace::Backtrace::capture (anyhow captures one per error) -> disabled().

#[cfg(not(kani))]
use crate::shim as kani;
use crate::chess::move_struct::Move;
use crate::chess::verif_hooks::{GameState, Piece, PieceType, Position};
use crate::chess::{Game, Player};
use crate::glue::*;
use crate::spec::{self, Pos};

pub fn stub_backtrace_capture() -> std::backtrace::Backtrace {
    std::backtrace::Backtrace::disabled()
}

fn any_visible_ascii() -> u8 {
    let b: u8 = kani::any();
    kani::assume(b > 32 && b < 127);
    b
}

pub const BOARDS: [&str; 4] = [
    "4k3/8/8/8/8/8/8/4K3",
    "r3k2r/8/8/3pP3/8/8/8/R3K2R",
    "4k3/8/8/8/3Pp3/8/8/4K3",
    "8/8/8/2k5/8/8/5K2/8",
];

/// Compares the outcome of the real importer with the spec's reading of the same bytes.
fn check_import(text: &[u8], f: [(usize, usize); 4], witness: bool) {
    let s = unsafe { std::str::from_utf8_unchecked(text) };
    // the field boundaries are concrete in every harness (symbolic bytes are never blanks)
    let want = spec::parse_fen_fields(&text[f[0].0..f[0].1], &text[f[1].0..f[1].1], &text[f[2].0..f[2].1], &text[f[3].0..f[3].1]);
    let got = Game::new(s);
    match (&want, &got) {
        (Some(p), Ok(game)) => {
            let q = spec_pos(game);
            let mut same = q.white_to_move == p.white_to_move && q.ep == p.ep;
            let mut i = 0;
            while i < 4 {
                same &= q.castle[i] == p.castle[i];
                i += 1;
            }
            assert!(same, "[C17] side, castling rights or e.p. file differ from what the text says");
            let mut placed = true;
            let mut r = 0;
            while r < 8 {
                let mut c = 0;
                while c < 8 {
                    placed &= q.board[r * 8 + c] == p.board[r * 8 + c];
                    c += 1;
                }
                r += 1;
            }
            assert!(placed, "[C17] piece placement differs from what the text says");
            assert!(game.hash() == spec::hash(p), "[C04] hash of an imported position is not the key-file hash of that position");
            let t = game.verif_piece_score_tables();
            assert!(game.score() == spec::score(&t, &p.board), "[C16] score of an imported position is not its piece-square sum");
            assert!(rep_holds(game), "[C16] per-square caches of an imported position disagree with the board");
            assert!(game.len() == 1, "[C17] an imported game does not start with exactly one state entry");
            let kp = game.verif_king_positions();
            assert!(
                square(kp[0]) == spec::king_square(&p.board, true) && square(kp[1]) == spec::king_square(&p.board, false),
                "[C17] cached king squares of an imported position are wrong"
            );
        }
        (Some(p), Err(_)) => {
            // kings are required by the engine (not by FEN syntax): a position without both kings may be refused
            let kings = spec::count(&p.board, spec::code(spec::KING, false)) >= 1 && spec::count(&p.board, spec::code(spec::KING, true)) >= 1;
            assert!(!kings, "[C17] a well-formed FEN is refused");
        }
        (None, Ok(_)) => assert!(false, "[C17] a malformed FEN is accepted"),
        (None, Err(_)) => {}
    }
    if witness {
        kani::assume(want.is_some());
        assert!(false, "[witness] end of harness reached");
    }
    std::mem::forget(got);
}

/// fields 2-4 symbolic: `<board> <side:ls> <castling:lc> <ep:le>[ 0 1]`
pub fn import_fields_body(board: usize, ls: usize, lc: usize, le: usize, counters: bool, witness: bool) {
    let mut buf = [b' '; 96];
    let b = BOARDS[board].as_bytes();
    let mut n = 0;
    let mut i = 0;
    while i < b.len() {
        buf[n] = b[i];
        n += 1;
        i += 1;
    }
    let mut f = [(0usize, b.len()); 4];
    let mut fi = 1;
    for len in [ls, lc, le] {
        n += 1; // the blank
        let start = n;
        let mut k = 0;
        while k < len {
            buf[n] = any_visible_ascii();
            n += 1;
            k += 1;
        }
        f[fi] = (start, n);
        fi += 1;
    }
    if counters {
        for ch in [b' ', b'0', b' ', b'1'] {
            buf[n] = ch;
            n += 1;
        }
    }
    check_import(&buf[..n], f, witness);
}

/// the last `m` bytes of the board field symbolic: `<prefix><m bytes> w - -`
pub fn import_tail_body(prefix: &str, m: usize, witness: bool) {
    let mut buf = [b' '; 96];
    let b = prefix.as_bytes();
    let mut n = 0;
    let mut i = 0;
    while i < b.len() {
        buf[n] = b[i];
        n += 1;
        i += 1;
    }
    let mut k = 0;
    while k < m {
        buf[n] = any_visible_ascii();
        n += 1;
        k += 1;
    }
    let bend = n;
    for ch in [b' ', b'w', b' ', b'-', b' ', b'-'] {
        buf[n] = ch;
        n += 1;
    }
    check_import(&buf[..n], [(0, bend), (bend + 1, bend + 2), (bend + 3, bend + 4), (bend + 5, bend + 6)], witness);
}

/// Direct-index replacements for `Piece::hash` / `Piece::score` (proved equal to the real ones
/// for every piece and square by c04a_piece_key_pinned_to_file / c16a_piece_value_is_table_entry):
/// the real look-ups go through `get_unchecked`, which costs the solver ~400 k clauses per call.
pub fn stub_piece_hash(piece: Piece, pos: Position) -> u64 {
    spec::KEY_SQUARE[square(pos)][piece_code(Some(piece)) as usize]
}
pub fn stub_piece_score(piece: Piece, pos: Position, scores: &[std::cell::Cell<&[i16; 64]>; 6]) -> i16 {
    let t = [scores[0].get(), scores[1].get(), scores[2].get(), scores[3].get(), scores[4].get(), scores[5].get()];
    spec::pst(&t, piece_code(Some(piece)), square(pos))
}

/// Light import check: position fields and hash only.
fn check_import_light(text: &[u8], f: [(usize, usize); 4]) {
    let s = unsafe { std::str::from_utf8_unchecked(text) };
    let want = spec::parse_fen_fields(&text[f[0].0..f[0].1], &text[f[1].0..f[1].1], &text[f[2].0..f[2].1], &text[f[3].0..f[3].1]);
    let got = Game::new(s);
    match (&want, &got) {
        (Some(p), Ok(game)) => {
            let bits = game.verif_state_at(0).verif_bits();
            assert!(bits == spec::state_byte(&p.castle, p.ep), "[C17] castling rights or e.p. file differ from what the text says");
            assert!((game.player() == Player::White) == p.white_to_move, "[C17] side to move differs from what the text says");
            assert!(game.hash() == spec::hash(p), "[C04] hash of an imported position is not the key-file hash of that position");
        }
        (Some(_), Err(_)) => assert!(false, "[C17] a well-formed FEN is refused"),
        (None, Ok(_)) => assert!(false, "[C17] a malformed FEN is accepted"),
        (None, Err(_)) => {}
    }
    std::mem::forget(got);
}

pub fn import_light_body(board: usize, side: &str, castling: &str, ep: &str, mask: u32) {
    let mut buf = [b' '; 64];
    let b = BOARDS[board].as_bytes();
    let mut n = 0;
    let mut i = 0;
    while i < b.len() {
        buf[n] = b[i];
        n += 1;
        i += 1;
    }
    let mut f = [(0usize, b.len()); 4];
    let mut fi = 1;
    let mut bit = 0;
    for field in [side, castling, ep] {
        n += 1;
        let start = n;
        let fb = field.as_bytes();
        let mut k = 0;
        while k < fb.len() {
            buf[n] = if mask & (1 << bit) != 0 { any_visible_ascii() } else { fb[k] };
            bit += 1;
            n += 1;
            k += 1;
        }
        f[fi] = (start, n);
        fi += 1;
    }
    check_import_light(&buf[..n], f);
}

macro_rules! fenl_instance {
    ($name:ident, $($arg:expr),*) => {
        #[cfg_attr(kani, kani::proof)]
        #[cfg_attr(kani, kani::unwind(40))]
        #[cfg_attr(kani, kani::stub(std::backtrace::Backtrace::capture, stub_backtrace_capture))]
        #[cfg_attr(kani, kani::stub(crate::chess::verif_hooks::Piece::hash, stub_piece_hash))]
        #[cfg_attr(kani, kani::stub(crate::chess::verif_hooks::Piece::score, stub_piece_score))]
        pub fn $name() {
            import_light_body($($arg),*)
        }
    };
}

fenl_instance!(c17_light_concrete, 0, "w", "-", "-", 0);
fenl_instance!(c17_light_epfile, 2, "b", "-", "d3", 0b0100);

macro_rules! fen_instance {
    ($name:ident, $body:ident, $($arg:expr),*) => {
        #[cfg_attr(kani, kani::proof)]
        #[cfg_attr(kani, kani::unwind(100))]
        #[cfg_attr(kani, kani::stub(std::backtrace::Backtrace::capture, stub_backtrace_capture))]
        pub fn $name() {
            $body($($arg),*)
        }
    };
}

/// `<board> <side> <castling> <ep>` with the given concrete fields, of which the bytes whose
/// index (counted over the three fields) has its bit set in `mask` are symbolic.
pub fn import_mask_body(board: usize, side: &str, castling: &str, ep: &str, mask: u32, witness: bool) {
    let mut buf = [b' '; 96];
    let b = BOARDS[board].as_bytes();
    let mut n = 0;
    let mut i = 0;
    while i < b.len() {
        buf[n] = b[i];
        n += 1;
        i += 1;
    }
    let mut f = [(0usize, b.len()); 4];
    let mut fi = 1;
    let mut bit = 0;
    for field in [side, castling, ep] {
        n += 1;
        let start = n;
        let fb = field.as_bytes();
        let mut k = 0;
        while k < fb.len() {
            buf[n] = if mask & (1 << bit) != 0 { any_visible_ascii() } else { fb[k] };
            bit += 1;
            n += 1;
            k += 1;
        }
        f[fi] = (start, n);
        fi += 1;
    }
    check_import(&buf[..n], f, witness);
}

fen_instance!(c17_probe_concrete, import_mask_body, 0, "w", "-", "-", 0, false);
fen_instance!(c17_probe_side, import_mask_body, 0, "w", "-", "-", 0b001, false);
fen_instance!(c17_probe_ep2, import_mask_body, 1, "b", "KQkq", "d3", 0b1100000, false);
fen_instance!(c17_fields_b0_1_1_1, import_fields_body, 0, 1, 1, 1, false, false);
fen_instance!(c17_fields_b0_1_1_2, import_fields_body, 0, 1, 1, 2, false, false);
fen_instance!(c17_fields_b0_2_1_1, import_fields_body, 0, 2, 1, 1, false, false);
fen_instance!(c17_fields_b1_1_2_1, import_fields_body, 1, 1, 2, 1, false, false);
fen_instance!(c17_fields_b1_1_4_2, import_fields_body, 1, 1, 4, 2, true, false);
fen_instance!(c17_fields_b1_1_3_2, import_fields_body, 1, 1, 3, 2, false, false);
fen_instance!(c17_fields_b2_1_1_2, import_fields_body, 2, 1, 1, 2, true, false);
fen_instance!(c17_fields_b3_1_1_3, import_fields_body, 3, 1, 1, 3, false, false);
fen_instance!(c17_fields_witness, import_fields_body, 1, 1, 2, 2, false, true);

fen_instance!(c17_tail_1, import_tail_body, "4k3/8/8/8/8/8/8/4K2", 1, false);
fen_instance!(c17_tail_2, import_tail_body, "4k3/8/8/8/8/8/8/4K", 2, false);
fen_instance!(c17_tail_3, import_tail_body, "4k3/8/8/8/8/8/8/K", 3, false);
fen_instance!(c17_tail_rank7, import_tail_body, "4k3/8/8/8/8/8/", 3, false);
