//! Unit lemmas: the engine's table lookups against the published key file and score tables.
#[cfg(not(kani))]
use crate::shim as kani;
use crate::chess::verif_hooks::{GameState, Piece, PieceType, Position};
use crate::chess::{zobrist, Player};
use crate::glue::*;
use crate::spec;
use std::cell::Cell;

fn any_code() -> u8 {
    let c: u8 = kani::any();
    kani::assume(c >= 1 && c <= 12);
    c
}

fn any_square() -> usize {
    let s: usize = kani::any();
    kani::assume(s < 64);
    s
}

/// C04a: `Piece::hash` is the little-endian word of the key file at 259 + 8 (12 sq + kind + 6 black).
#[cfg_attr(kani, kani::proof)]
#[cfg_attr(kani, kani::unwind(9))]
pub fn c04a_piece_key_pinned_to_file() {
    let c = any_code();
    let sq = any_square();
    let piece = code_piece(c).unwrap();
    let k = (c - 1) as usize;
    assert!(piece.hash(position(sq)) == spec::key_at(259 + 8 * (12 * sq + k)));
    assert!(piece.as_index() == k);
}

/// C04a: `GameState::hash` is the word at 2 + 8 * byte; side and empty keys at 0 and 1.
#[cfg_attr(kani, kani::proof)]
#[cfg_attr(kani, kani::unwind(9))]
pub fn c04a_state_side_empty_keys_pinned_to_file() {
    let b: u8 = kani::any();
    assert!(GameState::verif_from_bits(b).hash() == spec::key_at(2 + 8 * b as usize));
    assert!(zobrist::BLACK_TO_MOVE == spec::key_at(0));
    assert!(zobrist::EMPTY_PLACE == spec::key_at(1));
}
