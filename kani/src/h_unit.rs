//! Unit lemmas: the engine's table lookups against the published key file and score tables.
#[cfg(not(kani))]
use crate::shim as kani;
use crate::chess::verif_hooks::{GameState, Piece, PieceType, Position};
use crate::chess::{zobrist, Game, Player};
use crate::glue::*;
use crate::spec;
use std::cell::Cell;

fn any_code() -> u8 {
    let c: u8 = kani::any();
    kani::assume(c >= 1 && c <= 12);
    c
}

fn any_square() -> usize {
    let s: usize = kani::any();
    kani::assume(s < 64);
    s
}

/// C04a: `Piece::hash` is the little-endian word of the key file at 259 + 8 (12 sq + kind + 6 black).
#[cfg_attr(kani, kani::proof)]
#[cfg_attr(kani, kani::unwind(9))]
pub fn c04a_piece_key_pinned_to_file() {
    let c = any_code();
    let sq = any_square();
    let piece = code_piece(c).unwrap();
    let k = (c - 1) as usize;
    assert!(piece.hash(position(sq)) == spec::key_at(259 + 8 * (12 * sq + k)));
    assert!(piece.as_index() == k);
}

/// C04a: `GameState::hash` is the word at 2 + 8 * byte; side and empty keys at 0 and 1.
#[cfg_attr(kani, kani::proof)]
#[cfg_attr(kani, kani::unwind(9))]
pub fn c04a_state_side_empty_keys_pinned_to_file() {
    let b: u8 = kani::any();
    assert!(GameState::verif_from_bits(b).hash() == spec::key_at(2 + 8 * b as usize));
    assert!(zobrist::BLACK_TO_MOVE == spec::key_at(0));
    assert!(zobrist::EMPTY_PLACE == spec::key_at(1));
}

// ------------------------------------------------------------------------------------------
// C05: every single feature has its own key (with C04's "hash = xor of feature keys" this is
// single-feature sensitivity for every position).
// ------------------------------------------------------------------------------------------

fn real_square_key(c: u8, sq: usize) -> u64 {
    match code_piece(c) {
        None => zobrist::EMPTY_PLACE,
        Some(piece) => piece.hash(position(sq)),
    }
}

#[cfg_attr(kani, kani::proof)]
#[cfg_attr(kani, kani::unwind(9))]
pub fn c05_square_content_changes_key() {
    let sq = any_square();
    let a: u8 = kani::any();
    let b: u8 = kani::any();
    kani::assume(a <= 12 && b <= 12 && a != b);
    assert!(real_square_key(a, sq) != real_square_key(b, sq), "[C05] two different contents of a square share a key");
}

#[cfg_attr(kani, kani::proof)]
#[cfg_attr(kani, kani::unwind(9))]
pub fn c05_state_and_side_change_key() {
    let x: u8 = kani::any();
    let y: u8 = kani::any();
    kani::assume(x != y);
    assert!(
        GameState::verif_from_bits(x).hash() != GameState::verif_from_bits(y).hash(),
        "[C05] two different castling-right / e.p. states share a key"
    );
    assert!(zobrist::BLACK_TO_MOVE != 0, "[C05] the side to move does not change the hash");
}

/// The state byte is the features themselves: four right bits and the e.p. file, read back by
/// the real accessors (so a right or the e.p. file cannot be left out of the state key).
#[cfg_attr(kani, kani::proof)]
#[cfg_attr(kani, kani::unwind(9))]
pub fn c05_state_byte_is_the_features() {
    let b: u8 = kani::any();
    let s = GameState::verif_from_bits(b);
    assert!(s.white_king_castling() == (b & 16 != 0), "[C05] white king-side right is not bit 16 of the state");
    assert!(s.white_queen_castling() == (b & 32 != 0), "[C05] white queen-side right is not bit 32 of the state");
    assert!(s.black_king_castling() == (b & 64 != 0), "[C05] black king-side right is not bit 64 of the state");
    assert!(s.black_queen_castling() == (b & 128 != 0), "[C05] black queen-side right is not bit 128 of the state");
    assert!(s.en_passant() == (b & 15) as i8, "[C05] e.p. file is not the low nibble of the state");
    // setters change exactly their own feature
    let f: u8 = kani::any();
    kani::assume(f <= 8);
    let mut t = s;
    t.set_en_passant(f as i8);
    assert!(t.verif_bits() == (b & 0xF0) | f, "[C05] setting the e.p. file disturbs the rights");
    let mut t = s;
    t.set_white_king_castling_false();
    assert!(t.verif_bits() == b & !16);
    let mut t = s;
    t.set_white_queen_castling_false();
    assert!(t.verif_bits() == b & !32);
    let mut t = s;
    t.set_black_king_castling_false();
    assert!(t.verif_bits() == b & !64);
    let mut t = s;
    t.set_black_queen_castling_false();
    assert!(t.verif_bits() == b & !128);
    let mut t = s;
    t.set_white_king_castling_true();
    assert!(t.verif_bits() == b | 16);
    let mut t = s;
    t.set_white_queen_castling_true();
    assert!(t.verif_bits() == b | 32);
    let mut t = s;
    t.set_black_king_castling_true();
    assert!(t.verif_bits() == b | 64);
    let mut t = s;
    t.set_black_queen_castling_true();
    assert!(t.verif_bits() == b | 128);
}

// ------------------------------------------------------------------------------------------
// C16: the per-piece value is the table entry (rank flipped for White, negated for Black),
// colour-symmetric; the phase switch keeps "score = piece-square sum under the installed tables".
// ------------------------------------------------------------------------------------------

fn cells(endgame: bool) -> [Cell<&'static [i16; 64]>; 6] {
    let t = tables(endgame);
    [Cell::new(t[0]), Cell::new(t[1]), Cell::new(t[2]), Cell::new(t[3]), Cell::new(t[4]), Cell::new(t[5])]
}

#[cfg_attr(kani, kani::proof)]
#[cfg_attr(kani, kani::unwind(9))]
pub fn c16a_piece_value_is_table_entry() {
    let c = any_code();
    let sq = any_square();
    let endgame: bool = kani::any();
    let got = code_piece(c).unwrap().score(position(sq), &cells(endgame));
    assert!(got == spec::pst(&tables(endgame), c, sq), "[C16] piece value is not the piece-square table entry");
    // colour mirror: the same piece of the other colour on the vertically mirrored square
    let mc = if c <= 6 { c + 6 } else { c - 6 };
    let msq = (7 - sq / 8) * 8 + sq % 8;
    let mirrored = code_piece(mc).unwrap().score(position(msq), &cells(endgame));
    assert!(mirrored == -got, "[C16] the colour-mirrored piece does not have the negated value");
}

/// The phase update: afterwards the caches still agree with the board under the tables NOW
/// installed, and score - piece-square-sum(installed tables) is unchanged.
/// Boards: the two kings on the given squares plus three squares of arbitrary content (the
/// material sum that decides the phase is then cheap to evaluate); `full` adds the complete
/// starting material so that the middlegame side of the threshold is exercised too.
pub fn phase_body(wk: usize, bk: usize, full: bool) {
    let mut board = [spec::EMPTY; 64];
    if full {
        let back = [spec::ROOK, spec::KNIGHT, spec::BISHOP, spec::QUEEN, spec::KING, spec::BISHOP, spec::KNIGHT, spec::ROOK];
        let mut c = 0;
        while c < 8 {
            board[c] = spec::code(back[c], false);
            board[8 + c] = spec::code(spec::PAWN, false);
            board[48 + c] = spec::code(spec::PAWN, true);
            board[56 + c] = spec::code(back[c], true);
            c += 1;
        }
    } else {
        board[wk] = spec::code(spec::KING, false);
        board[bk] = spec::code(spec::KING, true);
    }
    for sq in [18usize, 29, 43] {
        if sq != wk && sq != bk {
            let x: u8 = kani::any();
            kani::assume(x <= 12 && spec::kind_of_or(x, 99) != spec::KING);
            board[sq] = x;
        }
    }
    let p = spec::Pos { board, white_to_move: kani::any(), castle: [false; 4], ep: 8 };
    let score: i16 = kani::any();
    kani::assume(score >= -crate::h_k::SCORE_BOUND && score <= crate::h_k::SCORE_BOUND);
    let start_endgame: bool = kani::any();
    let mut game = build_game(&p, 0, score, start_endgame, 1, 0);
    let before = score.wrapping_sub(spec::score(&tables(start_endgame), &p.board));
    game.update_phase();
    let now = game.verif_piece_score_tables();
    let after = game.score().wrapping_sub(spec::score(&now, &p.board));
    assert!(after == before, "[C16] after the phase update the score is no longer the piece-square sum under the installed tables");
    assert!(rep_holds(&game), "[C16] after the phase update the per-square caches disagree with the installed tables");
    assert!(
        std::ptr::eq(now[5], tables(true)[5]) || std::ptr::eq(now[5], tables(false)[5]),
        "[C16] king table is neither the middlegame nor the endgame table"
    );
    let q = spec_pos(&game);
    let mut same = q.white_to_move == p.white_to_move && q.ep == p.ep;
    let mut r = 0;
    while r < 8 {
        let mut c = 0;
        while c < 8 {
            same &= q.board[r * 8 + c] == p.board[r * 8 + c];
            c += 1;
        }
        r += 1;
    }
    assert!(same, "[C03] the phase update changes the position");
    std::mem::forget(game);
}

#[cfg_attr(kani, kani::proof)]
#[cfg_attr(kani, kani::unwind(9))]
pub fn c16d_phase_switch_kings_e1_e8() {
    phase_body(4, 60, false)
}

#[cfg_attr(kani, kani::proof)]
#[cfg_attr(kani, kani::unwind(9))]
pub fn c16d_phase_switch_kings_d4_f6() {
    phase_body(27, 45, false)
}

#[cfg_attr(kani, kani::proof)]
#[cfg_attr(kani, kani::unwind(9))]
pub fn c16d_phase_switch_full_material() {
    phase_body(4, 60, true)
}

/// C03 across the phase update (positions "loaded from text in any phase of the game" pass
/// through it): after `update_phase`, playing a king move and taking it back restores the
/// score, the hash and the caches.  Kings on the given squares, the white king steps to `to`.
pub fn undo_after_phase_body(wk: usize, bk: usize, to: usize) {
    let mut board = [spec::EMPTY; 64];
    board[wk] = spec::code(spec::KING, false);
    board[bk] = spec::code(spec::KING, true);
    for sq in [18usize, 29, 43] {
        if sq != wk && sq != bk && sq != to {
            let x: u8 = kani::any();
            kani::assume(x <= 12 && spec::kind_of_or(x, 99) != spec::KING);
            board[sq] = x;
        }
    }
    let white: bool = kani::any();
    let p = spec::Pos { board, white_to_move: white, castle: [false; 4], ep: 8 };
    let score: i16 = kani::any();
    kani::assume(score >= -crate::h_k::SCORE_BOUND && score <= crate::h_k::SCORE_BOUND);
    let hash: u64 = kani::any();
    let mut game = build_game(&p, hash, score, false, 1, 0);
    // the importer's total: score is the piece-square sum under the tables installed at that time
    kani::assume(score == spec::score(&tables(false), &p.board));
    game.update_phase();
    let s0 = game.score();
    let h0 = game.hash();
    let (from, dest) = if white { (wk, to) } else { (bk, if bk >= 8 { bk - 8 } else { bk + 8 }) };
    let m = real_move(&p, from, dest, spec::MK::Normal);
    game.push(m);
    game.pop(m);
    assert!(game.score() == s0, "[C03] score differs after playing and taking back a king move in a position that went through the phase update");
    assert!(game.hash() == h0, "[C03] hash differs after take-back");
    assert!(rep_holds(&game), "[C03] per-square caches disagree with the board after take-back");
    std::mem::forget(game);
}

#[cfg_attr(kani, kani::proof)]
#[cfg_attr(kani, kani::unwind(9))]
pub fn c03_undo_after_phase_update_d4() {
    undo_after_phase_body(27, 62, 28)
}

#[cfg_attr(kani, kani::proof)]
#[cfg_attr(kani, kani::unwind(9))]
pub fn c03_undo_after_phase_update_e1() {
    undo_after_phase_body(4, 60, 12)
}

#[cfg_attr(kani, kani::proof)]
#[cfg_attr(kani, kani::unwind(9))]
pub fn unit_witness() {
    c04a_piece_key_pinned_to_file();
    c16a_piece_value_is_table_entry();
    c05_state_and_side_change_key();
    assert!(false, "[witness] end of harness reached");
}
