fn main() {
    // The guard that switches /repo's verification hooks on.
    println!("cargo:rustc-cfg=daniel729_chess_verif");
    println!("cargo:rerun-if-changed=build.rs");
}
