"""Shared plumbing of the checks: tiers, seeds, evidence files, known findings, replays."""
import json
import os
import random
import re
import subprocess
import sys
import time

VERIF = os.path.dirname(os.path.dirname(os.path.abspath(__file__)))
REPO = "/repo"
EVIDENCE_DIR = os.path.join(VERIF, "evidence")
REPLAY_DIR = os.path.join(VERIF, "replays")
KNOWN = os.path.join(VERIF, "known_findings.json")


def tier_and_seed(argv):
    tier = os.environ.get("VERIF_TIER", "quick")
    for i, a in enumerate(argv):
        if a == "--tier" and i + 1 < len(argv):
            tier = argv[i + 1]
    if tier not in ("quick", "thorough"):
        tier = "quick"
    try:
        seed = int(os.environ.get("VERIF_SEED", "0"))
    except ValueError:
        seed = 0
    return tier, seed


def rng(seed, salt):
    return random.Random("%d/%s" % (seed, salt))


def repo_fingerprint():
    """sha of the sources the encodings are generated from (reported in the evidence)"""
    out = subprocess.run("cd /repo && (git rev-parse HEAD; git status --porcelain | wc -l; cat src/*.rs src/chess/*.rs zobrist_bytes.bin | sha256sum)",
                         shell=True, stdout=subprocess.PIPE, text=True).stdout.split("\n")
    return {"head": out[0].strip(), "uncommitted_files": out[1].strip() if len(out) > 2 else "", "sources_sha256": out[-2].split()[0] if len(out) >= 2 else ""}


def load_known():
    try:
        return json.load(open(KNOWN)).get("findings", [])
    except Exception:
        return []


def match_known(prop, harness, descriptions):
    """An OPEN known finding suppresses a failure only if it names this property, its harness
    pattern matches and EVERY failed check matches its check pattern."""
    for f in load_known():
        if f.get("property") != prop or f.get("status") != "open":
            continue
        if not re.search(f.get("harness", "$^"), harness):
            continue
        if descriptions and all(re.search(f.get("check", "$^"), d) for d in descriptions):
            return f
    return None


def write_evidence(prop, tier, seed, level, coverage, assumptions, wall_s, violations):
    os.makedirs(EVIDENCE_DIR, exist_ok=True)
    ev = {
        "property_id": prop, "tier": tier, "seed": seed, "level": level,
        "coverage": coverage, "assumptions": assumptions,
        "wall_s": round(wall_s, 2), "violations": violations,
    }
    path = os.path.join(EVIDENCE_DIR, prop + ".json")
    tmp = path + ".tmp"
    with open(tmp, "w") as fh:
        json.dump(ev, fh, indent=1)
    os.replace(tmp, path)
    return path


def native_replay(harness, vecs, profile):
    """Feeds a counterexample's values to the natively compiled harness body.
    Returns (reproduced: bool|None, detail)."""
    os.makedirs(REPLAY_DIR, exist_ok=True)
    vals = os.path.join(REPLAY_DIR, "tmp_%d.vals" % os.getpid())
    with open(vals, "w") as fh:
        for v in vecs:
            fh.write(" ".join(str(b) for b in v) + "\n")
    cmd = ["cargo", "run", "--offline", "-q"]
    if profile == "release":
        cmd.append("--release")
    cmd += ["--manifest-path", os.path.join(VERIF, "replay", "Cargo.toml"), "--", harness, vals]
    env = dict(os.environ)
    env.pop("RUSTFLAGS", None)
    env["CARGO_NET_OFFLINE"] = "true"
    try:
        p = subprocess.run(cmd, stdout=subprocess.PIPE, stderr=subprocess.STDOUT, text=True, errors="replace", timeout=1800, env=env)
    except subprocess.TimeoutExpired:
        return None, "native replay timed out"
    finally:
        try:
            os.unlink(vals)
        except OSError:
            pass
    tail = "\n".join(p.stdout.strip().splitlines()[-6:])
    if p.returncode == 0:
        return False, tail
    if p.returncode in (3, 4, 2):
        return None, tail
    return True, tail   # assertion / panic (1, 101) or abort by signal (negative)


def save_replay(prop, harness, failed_checks, vecs, playback_src, native):
    d = os.path.join(REPLAY_DIR, prop)
    os.makedirs(d, exist_ok=True)
    path = os.path.join(d, harness.replace("::", "__") + ".json")
    with open(path, "w") as fh:
        json.dump({
            "property": prop, "harness": harness, "failed_checks": failed_checks,
            "values": vecs, "kani_playback_test": playback_src, "native_replay": native,
            "how_to_replay": "cd /verif && ./check %s --replay %s" % (prop, path),
        }, fh, indent=1)
    return path


def sys_replay(name):
    """System-level native replay (whole real engine, release profile) of a search finding."""
    cmd = ["cargo", "run", "--offline", "-q", "--release", "--manifest-path", os.path.join(VERIF, "replay", "Cargo.toml"), "--", "--sys", name]
    env = dict(os.environ)
    env.pop("RUSTFLAGS", None)
    try:
        p = subprocess.run(cmd, stdout=subprocess.PIPE, stderr=subprocess.STDOUT, text=True, errors="replace", timeout=900, env=env)
    except subprocess.TimeoutExpired:
        return None, "timed out"
    lines = [l for l in p.stdout.splitlines() if l.startswith("SYS-") or "panicked" in l]
    return p.returncode == 1, "\n".join(lines[-4:])
