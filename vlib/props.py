"""Per-property configuration: which harnesses decide it in which tier, what they encode,
the stated bounds and assumptions, and the generic run/replay/evidence loop."""
import json
import os
import subprocess
import sys
import time

from . import common, kani

FILES = "abcdefgh"


def sq(name):
    return (int(name[1]) - 1) * 8 + FILES.index(name[0])


def sqname(i):
    return FILES[i % 8] + str(i // 8 + 1)


def geometric_pairs():
    out = []
    for f in range(64):
        for t in range(64):
            if f == t:
                continue
            dr, dc = abs(t // 8 - f // 8), abs(t % 8 - f % 8)
            if dr == 0 or dc == 0 or dr == dc or (dr, dc) in ((1, 2), (2, 1)):
                out.append(sqname(f) + sqname(t))
    return out


# ------------------------------------------------------------------------------------------
# P family (one step of Game::push / Game::pop between concrete squares)
# ------------------------------------------------------------------------------------------

# Rule-critical square pairs, always run: king and rook home squares (rights), captures on
# corners (rights of the other side), corner-to-corner rook captures, pawn single and double
# steps on edge and centre files for both colours, pawn captures, plain moves.
P_CRITICAL_NORMAL = [
    "e1d1", "e1e2", "e1f2", "e8e7", "e8f8", "e8d7",
    "a1a4", "a1b1", "h1h5", "h1g1", "a8a5", "a8b8", "h8h3", "h8g8",
    "a5a1", "g3h1", "b6a8", "g6h8", "a1a8", "h1h8", "h8h1", "a8a1", "d4a1", "e5h8",
    "e2e4", "a2a4", "h2h4", "d7d5", "a7a5", "h7h5", "b2b4", "g7g5",
    "e2e3", "e7e6", "e4d5", "d5e4", "b4a5", "g5h4", "e6e7", "d3d2",
    "d4d5", "c3e4", "f6d7", "b1c3",
]
P_CRITICAL_PROMO = ["aa", "ab", "ba", "hh", "hg", "gh", "de", "ed", "dd"]
P_CRITICAL_EP = ["ab", "ba", "gh", "hg", "de", "ed"]


def p_family(group, tier, seed, n_random=8):
    pairs = geometric_pairs()
    promo = [FILES[a] + FILES[b] for a in range(8) for b in range(8) if abs(a - b) <= 1]
    ep = [FILES[a] + FILES[b] for a in range(8) for b in range(8) if abs(a - b) == 1]
    if tier == "thorough":
        normal, pq, pe = pairs, promo, ep
    else:
        r = common.rng(seed, "p-" + group)
        normal = list(P_CRITICAL_NORMAL)
        rest = [p for p in pairs if p not in normal]
        normal += r.sample(rest, n_random)
        pq = list(P_CRITICAL_PROMO)
        pe = list(P_CRITICAL_EP)
    hs = ["h_push::pn_%s_%s" % (group, p) for p in normal]
    hs += ["h_push::pq_%s_%s" % (group, p) for p in pq]
    hs += ["h_push::pe_%s_%s" % (group, p) for p in pe]
    hs += ["h_push::pc_%s_short" % group, "h_push::pc_%s_long" % group]
    return hs


P_WITNESSES = ["h_push::pn_witness_e2e4", "h_push::pq_witness_ab", "h_push::pe_witness_de",
               "h_push::pc_witness_short", "h_push::pc_witness_long"]

P_BOUNDS = ("one step of push/pop from an ARBITRARY state: all 13^64 boards, both sides, all castling-right / "
            "e.p.-file combinations consistent with the board, any running hash, running score within +-11000, "
            "either king table, state stack of length 2; squares of the move concrete per harness instance "
            "(quick: fixed rule-critical pairs + seeded random pairs; thorough: all 1792 queen-line/knight-jump pairs, "
            "all 22 promotion file pairs, all 14 e.p. file pairs, both castlings); unwind 9 with unwinding assertions")
P_ASSUME = [
    "pre-state satisfies the representation invariant (per-square hash/score caches agree with the board under the installed tables; king cache names the kings) -- re-established by the SUCC/HASH/SCORE groups, so it is inductive",
    "pre-state is consistent: one king each, no pawn on ranks 1/8, a castling right implies king and rook on their home squares, an e.p. file names a just-double-pushed pawn",
    "the move is shape-valid for the position (mover's piece on the start square, no own piece on the end square, pawn moves geometrically valid, promotion 7th->8th rank, e.p./castling board pattern as the generator guarantees); geometric validity of non-pawn moves is NOT assumed (superset of generated moves)",
    "a king never captures a king (the generator never emits king steps next to the enemy king)",
    "|running score| <= 11000 (material bound: keeps i16 arithmetic away from overflow; beyond it is outside the claim)",
    "the oracle (spec.rs) is the reference for successor positions, key layout and piece-square sums; it reproduces the 18 published perft counts and the README start hash natively",
]

# ------------------------------------------------------------------------------------------
# K family (real Piece::get_moves from a concrete square)
# ------------------------------------------------------------------------------------------

K_CRITICAL = [
    # (square, kind, side)
    ("e1", "k", "w"), ("e8", "k", "b"), ("d4", "k", "w"),
    ("e2", "p", "w"), ("a2", "p", "w"), ("h7", "p", "b"), ("d7", "p", "b"),
    ("e5", "p", "w"), ("a5", "p", "w"), ("h5", "p", "w"), ("d4", "p", "b"), ("a4", "p", "b"), ("h4", "p", "b"),
    ("b7", "p", "w"), ("g7", "p", "w"), ("a7", "p", "w"), ("g2", "p", "b"), ("b2", "p", "b"), ("h2", "p", "b"),
    ("e4", "p", "w"), ("e6", "p", "b"),
    ("b1", "n", "w"), ("d5", "n", "b"), ("h8", "n", "w"), ("g6", "n", "b"),
    ("a1", "r", "w"), ("h8", "r", "b"), ("d4", "r", "w"),
    ("c1", "b", "w"), ("f6", "b", "b"), ("a8", "b", "w"),
    ("e5", "q", "b"),
]


def k_family(group, tier, seed, n_random=6):
    allk = []
    for s in range(64):
        for k in "qrbnpk":
            if k == "p" and s // 8 in (0, 7):
                continue
            for side in "wb":
                allk.append((sqname(s), k, side))
    if tier == "thorough":
        sel = allk
    else:
        r = common.rng(seed, "k-" + group)
        sel = list(K_CRITICAL)
        rest = [x for x in allk if x not in sel]
        sel += r.sample(rest, n_random)
    return ["h_k::k_%s_%s_%s_%s" % (group, s, k, side) for (s, k, side) in sel]


# ------------------------------------------------------------------------------------------
# property table
# ------------------------------------------------------------------------------------------

def _c02(tier, seed):
    return p_family("succ", tier, seed)


def _c03(tier, seed):
    hs = ["h_unit::c03_undo_after_phase_update_d4", "h_unit::c03_undo_after_phase_update_e1"]
    if tier == "thorough":
        hs.append("h_filter::c01_filter_checked_d4")
    return hs + p_family("undo", tier, seed)


def _c04(tier, seed):
    return ["h_unit::c04a_piece_key_pinned_to_file", "h_unit::c04a_state_side_empty_keys_pinned_to_file"] + p_family("hash", tier, seed)


def _c16(tier, seed):
    return ["h_unit::c16a_piece_value_is_table_entry", "h_unit::c16d_phase_switch_kings_e1_e8", "h_unit::c16d_phase_switch_kings_d4_f6", "h_unit::c16d_phase_switch_full_material"] + p_family("score", tier, seed)


def _c05(tier, seed):
    return ["h_unit::c05_square_content_changes_key", "h_unit::c05_state_and_side_change_key", "h_unit::c05_state_byte_is_the_features",
            "h_unit::c04a_piece_key_pinned_to_file", "h_unit::c04a_state_side_empty_keys_pinned_to_file"]


def _c15(tier, seed):
    last = ["h_k::k_lastrank_a8_w", "h_k::k_lastrank_e8_w", "h_k::k_lastrank_h8_w", "h_k::k_lastrank_a1_b", "h_k::k_lastrank_d1_b", "h_k::k_lastrank_h1_b"]
    return last + p_family("safe", tier, seed)


def _c01(tier, seed):
    allsq = [sqname(i) for i in range(64)]
    if tier == "thorough":
        tsq, l3 = allsq, allsq
    else:
        r = common.rng(seed, "c01-sq")
        fixed = ["a1", "e1", "h1", "a8", "e8", "h8", "d4", "e5", "c3", "f6"]
        tsq = fixed + r.sample([x for x in allsq if x not in fixed], 6)
        l3 = ["e1", "d4", "h8"] + r.sample(allsq, 3)
    hs = k_family("gen", tier, seed)
    hs += ["h_attack::c01_targeted_" + x for x in tsq]
    if tier == "thorough":
        # the filter harnesses need 7-14 min each: thorough tier only
        hs += ["h_filter::c01_filter_checked_e1", "h_filter::c01_filter_checked_d4", "h_filter::c01_filter_checked_h8",
               "h_filter::c01_filter_checked_a5", "h_filter::c01_filter_unchecked_d4", "h_filter::c01_filter_king_missing_d4"]
    hs += ["h_filter::l3_king_" + x for x in sorted(set(l3))]
    return hs


PROPS = {
    "C01": dict(select=_c01, witnesses=["h_k::k_witness_d4_n_w", "h_attack::c01_targeted_witness"],
                thorough_witnesses=["h_k::k_witness_d4_n_w", "h_attack::c01_targeted_witness", "h_filter::c01_filter_witness"], timeout=1800,
                stubbed_prefixes=["h_filter::c01_filter"],
                functions=["chess::piece::Piece::get_moves (+ get_pawn_moves, get_king_moves, get_knight_moves, slider rays)",
                           "chess::Game::is_targeted (directly, all boards, per target square; and through castling)",
                           "chess::Game::get_moves (legality filter; callees Piece::get_moves, push, pop, is_targeted replaced by nondeterministic stubs in h_filter)",
                           "chess::position::Position::add/add_unsafe/new_assert"],
                bounds="real generator from a concrete origin square for a concrete piece kind and side; all other 63 square contents, rights, e.p. file symbolic and consistent; quick: fixed rule-critical (square, kind, side) triples + seeded random ones; thorough: all 64 squares x 6 kinds x 2 sides; unwind 9 with unwinding assertions",
                assumptions=P_ASSUME[:2] + [P_ASSUME[5]], native_replay=True),
    "C02": dict(select=_c02, witnesses=P_WITNESSES, timeout=900,
                functions=["chess::Game::push", "chess::Game::set_position", "chess::gamestate::GameState setters", "chess::piece::Piece::{hash,score}"],
                bounds=P_BOUNDS, assumptions=P_ASSUME, native_replay=True),
    "C03": dict(select=_c03, witnesses=P_WITNESSES, thorough_witnesses=P_WITNESSES + ["h_filter::c01_filter_witness"], timeout=1800, tag="[C03]", stubbed_prefixes=["h_filter::c01_filter"],
                functions=["chess::Game::push", "chess::Game::pop", "chess::Game::set_position", "chess::Game::update_phase (+ is_endgame)", "chess::Game::get_moves (queries leave nothing played: filter harness with stubbed callees)"],
                bounds=P_BOUNDS, assumptions=P_ASSUME, native_replay=True),
    "C04": dict(select=_c04, witnesses=P_WITNESSES, timeout=900,
                functions=["chess::Game::push", "chess::Game::set_position", "chess::piece::Piece::hash", "chess::piece::Piece::as_index", "chess::gamestate::GameState::hash", "chess::zobrist::{PIECE,STATE,EMPTY_PLACE,BLACK_TO_MOVE}"],
                bounds=P_BOUNDS, assumptions=P_ASSUME, native_replay=True),
    "C15": dict(select=_c15, witnesses=P_WITNESSES, timeout=900,
                functions=["chess::Game::push", "chess::Game::pop", "chess::Game::set_position", "chess::Game::get_position", "chess::Game::state", "Position::{new_unsafe,as_usize}", "Piece::{score,hash}", "GameState::hash"],
                bounds=P_BOUNDS, assumptions=P_ASSUME, native_replay=True),
    "C16": dict(select=_c16, witnesses=P_WITNESSES, timeout=900,
                functions=["chess::Game::push", "chess::Game::set_position", "chess::piece::Piece::score"],
                bounds=P_BOUNDS, assumptions=P_ASSUME, native_replay=True),
}

def rt_family(tier, seed, n_random=6):
    pairs = geometric_pairs()
    promo = [FILES[a] + FILES[b] for a in range(8) for b in range(8) if abs(a - b) <= 1]
    ep = [FILES[a] + FILES[b] for a in range(8) for b in range(8) if abs(a - b) == 1]
    if tier == "thorough":
        normal, pq, pe = pairs, promo, ep
    else:
        r = common.rng(seed, "rt")
        normal = ["e1g1", "e1c1", "e8g8", "e8c8", "e1f1", "e8d8", "e2e4", "e7e5", "e4d5", "d5e4", "e5d6", "d4e3", "c2d3", "g1f3", "a1a8", "h8h1", "d1h5", "b7a8"]
        normal += r.sample([p for p in pairs if p not in normal], n_random)
        pq = list(P_CRITICAL_PROMO)
        pe = list(P_CRITICAL_EP)
    hs = ["h_text::c12_rt_n_" + p for p in normal] + ["h_text::c12_rt_q_" + p for p in pq] + ["h_text::c12_rt_e_" + p for p in pe]
    return hs + ["h_text::c12_rt_c_short", "h_text::c12_rt_c_long"]


def _c12(tier, seed):
    return ["h_text::c12_uci_text_normal", "h_text::c12_uci_text_promo", "h_text::c12_uci_text_ep", "h_text::c12_uci_text_castle",
            "h_text::c12_parse_no_alias_4", "h_text::c12_parse_no_alias_5"] + rt_family(tier, seed)


def _c20(tier, seed):
    return ["h_text::c20_pgn_text_normal", "h_text::c20_pgn_text_promo", "h_text::c20_pgn_text_ep", "h_text::c20_pgn_text_castle"]


TEXT_ASSUME = [
    "move values are arbitrary values of their kind (all squares, pieces, owners, captured pieces); strings are 4 or 5 ASCII bytes of move shape: file a-h, rank 1-8, file, rank, optional lower-case letter a-z (upper-case promotion letters and longer strings are outside the stated string domain)",
    "for the parser laws the position is any consistent position (13^64 boards, rights, e.p. file, side) built under the representation invariant",
    "the oracle's text renderers (spec.rs: uci_text, pgn_text) are the reference",
]
PROPS["C12"] = dict(select=_c12, witnesses=["h_text::c12_witness"], timeout=1500,
                    functions=["chess::move_struct::Move::uci_notation", "chess::move_struct::Move::from_uci_notation", "chess::Game::{get_king_position,get_position}"],
                    bounds="texts: all move values per kind; parser: all strings of move shape (4 and 5 bytes) over all consistent positions; round trip: squares concrete per instance (quick: rule-critical + seeded pairs, thorough: all 1792 pairs, 22 promotion and 14 e.p. file pairs, both castlings), contents symbolic; unwind 9 with unwinding assertions",
                    assumptions=TEXT_ASSUME, native_replay=True)
PROPS["C20"] = dict(select=_c20, witnesses=["h_text::c20_witness"], timeout=1500,
                    functions=["chess::move_struct::Move::pgn_notation", "chess::piece::Piece::as_str_pgn"],
                    bounds="all move values per kind (every piece, owner, square pair, captured piece, promotion piece); the diagram and FEN/hash lines of `show` are covered by C11/C04 lemmas, not here; unwind 9 with unwinding assertions",
                    assumptions=TEXT_ASSUME[:1] + TEXT_ASSUME[2:], native_replay=True)


PROPS["C05"] = dict(select=_c05, witnesses=["h_unit::unit_witness"], timeout=900,
                    functions=["chess::piece::Piece::{hash,as_index}", "chess::gamestate::GameState::{hash, accessors, setters}", "chess::zobrist::{PIECE,STATE,EMPTY_PLACE,BLACK_TO_MOVE}"],
                    bounds="all 64 squares x all pairs of the 13 contents; all pairs of the 256 state bytes; all state bytes for the accessor/setter laws; no loop bound needed. NOT covered (outside solver reach, stated in DESIGN.md): collision freedom among the millions of positions a search explores, and pairs of positions differing in two or more features",
                    assumptions=["single-feature sensitivity of the whole hash follows from these key laws together with C04 (hash = xor of the feature keys of the position, proved by the C04 check)"],
                    native_replay=True)


S = "h_search::"
# Heavy harnesses (real hashbrown insert inside): 12-20 min and up to 15 GB each.  Instances that
# exist in h_search.rs but are NOT run because they do not finish: c09_node_k5 (> 30 min), every
# root instance with a pre-filled table (c06_entry_*cached*, c06_entry_k4_rep_other: a look-up on a
# non-empty hashbrown table is out of CBMC's reach), c08_driver_*_cached*, c18_driver_pv_k3.
NODE = [S + x for x in ["c09_node_k1", "c09_node_k2", "c09_node_k3", "c09_node_k4", "c09_node_k4_killer3", "c09_node_k4_killer1"]]
DEPTH1 = [S + x for x in ["c09_depth1_k1", "c09_depth1_k2", "c09_depth1_k3", "c09_depth1_k5"]]
QUIES = [S + x for x in ["c09_quiescence_1_1", "c09_quiescence_2_2_all", "c09_quiescence_2_2_mixed", "c09_quiescence_3_2_all", "c09_quiescence_3_2_mixed", "c09_quiescence_3_3_none"]]
# cheap root / node harnesses (they return before the table is written)
ENTRY_CHEAP = [S + x for x in ["c06_entry_k1", "c06_entry_k1_rep0", "c08_entry_killers_k2", "c08_entry_killers_k4", "c07_node_stopped", "c06_entry_k1_rep0_hit"]]
# (c06_entry_k2_rep / c06_entry_k4_rep -- the repetition filter with several root moves -- did not finish
# in 55 min and are not run either)
ENTRY = [S + x for x in ["c06_entry_k0", "c06_entry_k2", "c06_entry_k4"]]
DRIVER = [S + x for x in ["c08_driver_limit1_fresh", "c08_driver_limit2_fresh", "c08_driver_limit3_fresh",
                          "c08_driver_unlimited_fresh", "c06_driver_no_moves", "c06_driver_single_reply"]]
NOMOVES = [S + x for x in ["c10_no_moves_node", "c10_depth1_no_moves", "c10_no_moves_quiescence"]]
S_WITNESS = [S + x for x in ["c09_node_witness", "c09_depth1_witness", "c09_quiescence_witness", "c06_entry_witness", "c08_driver_witness"]]

SEARCH_ASSUME = [
    "abstract game: Game::{get_moves,push,pop,hash,score,player,king_exists,is_targeted} are Kani stubs presenting a tree of at most 5 moves per node (concrete distinct Move values, node = path of move indices, hash = distinct constant per node); Move::uci_notation is stubbed in the driver harness",
    "the callee one ply below the function under test is a stub returning ANY value allowed by spec::ab_contract for the child's symbolic true value (|value| <= 30000: mate range excluded as in the property), or `stopped` from an arbitrary call on",
    "ordering keys are concrete per instance (std's sort on symbolic keys is intractable): history all zero, killer move / cached move = a fixed child per instance",
    "table: empty, or holding only entries for the positions on the walked line, each satisfying the table invariant T (cached move is a move of that position) which the node/root harnesses re-establish; equal hash => equal position is assumed (C05 covers what can be decided of it)",
    "composition over plies (induction on depth) and from abstract moves to real chess moves (C01) is argued in DESIGN.md, not solved",
]
SEARCH_BOUNDS = "one function, one ply per harness; branching <= 5 (<= 3 in the capture search, capture chains <= 2); all windows alpha <= beta, all child values in [-30000, 30000], any distance from root < 30 (interior) / < 200 (leaves), any requested depth 1..255, depth limits 1..3 and unlimited (observed for 3 iterations); unwind 9 with unwinding assertions"
SYS = {
    "[C07] stop before the first iteration": "c07_stop_before_first_iteration",
    "[C08] the driver searches deeper than the depth limit": "c08_limit_below_cached_depth",
    "[C08] the per-ply killer table is shorter": "c08_unlimited_tiny_position",
}


HEAVY = set(NODE + ENTRY + [S + "c06_entry_k1_rep0"])


def _search_prop(pid, harnesses, functions, quick_heavy):
    """quick tier: every cheap harness of the property plus the named heavy ones (real hashbrown
    insert / std sort inside: 10-30 min and 5-15 GB each); thorough tier: all of them."""
    def select(tier, seed, hs=harnesses, qh=quick_heavy):
        if tier == "thorough":
            return list(hs)
        # quick: the cheap harnesses only -- the heavy ones need 12-20 min each on an idle machine
        return [h for h in hs if h not in HEAVY]
    PROPS[pid] = dict(select=select, witnesses=[S + "c09_depth1_witness", S + "c08_driver_witness", S + "c09_quiescence_witness"],
                      thorough_witnesses=[S + "c09_depth1_witness", S + "c08_driver_witness", S + "c09_quiescence_witness", S + "c06_entry_witness"], timeout=3300, jobs=2, tag="[%s]" % pid,
                      stubbed_prefixes=[S], sys_replays=SYS, functions=functions, bounds=SEARCH_BOUNDS, assumptions=SEARCH_ASSUME, native_replay=True)


_search_prop("C06", [ENTRY_CHEAP[0], ENTRY_CHEAP[5], ENTRY_CHEAP[1]] + ENTRY + DRIVER + NODE[1:2], ["search::get_best_move_entry", "search::get_best_move_until_stop", "search::get_best_move_score (table entry it leaves)"], [])
_search_prop("C07", [ENTRY_CHEAP[0]] + ENTRY_CHEAP[2:5] + ENTRY[1:3] + DRIVER, ["search::get_best_move_entry (`?` propagation)", "search::get_best_move_until_stop", "search::get_best_move_score (stop poll at node entry)"], [])
_search_prop("C08", ENTRY_CHEAP[2:4] + DRIVER + ENTRY[1:2], ["search::get_best_move_until_stop", "search::get_best_move_entry (killer table it allocates)"], [])
_search_prop("C09", [NODE[1], NODE[3]] + DEPTH1 + QUIES + ENTRY[2:3], ["search::get_best_move_score", "search::get_best_move_score_depth_1", "search::quiescence_search", "search::get_best_move_entry", "search::move_score (through the sort)", "Move::{is_tactical_move,index_history}"], [])
_search_prop("C10", NOMOVES + DRIVER + ENTRY_CHEAP[2:4] + ENTRY[:1], ["search::get_best_move_score (no-move rule)", "search::get_best_move_score_depth_1 (no-move rule)", "search::quiescence_search (no-move rule)", "search::get_best_move_until_stop (stop on mate score)", "search::get_best_move_entry (root without moves)"], [])
_search_prop("C18", DRIVER + NODE[1:2], ["search::get_best_move_until_stop (line reconstruction)", "search::get_best_move_score (the cached move it leaves is one of the node's moves)"], [])


def _c13(tier, seed):
    from mirsmt import c13
    return c13.run(tier, seed, common)


PROPS["C13"] = dict(custom=_c13)

LEVEL = "model_checking"


def specval(quick=True):
    """Oracle validation, natively (published perft counts, README hash)."""
    cmd = ["cargo", "run", "--offline", "-q", "--release", "--manifest-path", os.path.join(common.VERIF, "replay", "Cargo.toml"), "--", "--specval"]
    env = dict(os.environ)
    env.pop("RUSTFLAGS", None)
    p = subprocess.run(cmd, stdout=subprocess.PIPE, stderr=subprocess.STDOUT, text=True, env=env)
    return p.returncode == 0, p.stdout.strip().splitlines()[-1] if p.stdout.strip() else ""


def run_property(prop, tier, seed):
    cfg = PROPS[prop]
    if cfg.get("custom"):
        return cfg["custom"](tier, seed)
    t0 = time.time()
    fp = common.repo_fingerprint()
    harnesses = cfg["select"](tier, seed)
    only = os.environ.get("VERIF_ONLY")  # debugging aid: restrict to harnesses matching a regex
    if only:
        import re
        harnesses = [h for h in harnesses if re.search(only, h)]
    witnesses = cfg.get("thorough_witnesses", cfg.get("witnesses", [])) if tier == "thorough" else cfg.get("witnesses", [])
    jobs = int(os.environ.get("VERIF_JOBS", str(cfg.get("jobs", 16))))
    # the quick tier is meant to stay inside a 900 s budget: no single harness may take longer than 780 s
    # there (a harness that needs more on a changed tree is reported as undecided, exit 2)
    htimeout = cfg.get("timeout", 900) if tier == "thorough" else min(cfg.get("timeout", 900), 780)
    results, build_ok, log = kani.run(harnesses + witnesses, jobs=jobs, harness_timeout=htimeout)
    if not build_ok or all(r.status == "undecided" and "no result file" in r.reason for r in results.values()):
        print("CHECK-BROKEN property=%s: the harness crate did not build against /repo's current tree" % prop)
        print(log)
        _evidence(prop, tier, seed, cfg, fp, results, harnesses, witnesses, t0, 0, [], undecided_note="build failed")
        return 2

    violations = []
    known = []
    undecided = []
    vacuous = []
    for w in witnesses:
        r = results[w]
        ok = r.status == "failure" and any("[witness]" in c["description"] for c in r.failed_checks)
        if not ok:
            vacuous.append(w)
    for h in harnesses:
        r = results[h]
        if r.status == "success":
            continue
        if r.status == "undecided":
            undecided.append(h)
            continue
        tag = cfg.get("tag")
        if tag:
            # a shared harness carries assertions of several properties: only this property's
            # assertions and untagged failures (panics, bounds, overflow in the real code) count here
            import re as _re
            mine = [c for c in r.failed_checks if tag in c["description"] or not _re.search(r"\[C\d\d\]", c["description"])]
            if not mine:
                r.status = "success"
                r.reason = "failed checks belong to other properties: " + "; ".join(c["description"] for c in r.failed_checks[:3])
                continue
            r.failed_checks = mine
        descs = [c["description"] for c in r.failed_checks]
        kf = common.match_known(prop, h, descs)
        if kf:
            known.append((h, kf))
            continue
        violations.append(h)

    exit_code = 0
    for h, kf in known:
        print("KNOWN-FINDING: property=%s %s (harness %s)" % (prop, kf.get("what", ""), h))
    confirmed = []
    unreproduced = []
    # replay at most 2 violating harnesses, cheapest first (each replay is a fresh solver run asking
    # for a model); the others are listed in the evidence
    for h in sorted(violations, key=lambda x: results[x].duration_s)[:2]:
        r = results[h]
        src, vecs = kani.concrete_playback(h, timeout=max(1200, cfg.get("timeout", 900) + 300))
        native = {}
        reproduced = None
        stubbed = any(h.startswith(pre) for pre in cfg.get("stubbed_prefixes", []))
        if vecs is not None and cfg.get("native_replay", False) and not stubbed:
            for profile in ("dev", "release"):
                rep, detail = common.native_replay(h, vecs, profile)
                native[profile] = {"reproduced": rep, "detail": detail}
            reproduced = bool(native["dev"]["reproduced"]) or bool(native["release"]["reproduced"])
        if stubbed and cfg.get("sys_replays"):
            # a finding on a function with stubbed callees is confirmed on the whole real engine
            for frag, name in cfg["sys_replays"].items():
                if any(frag in c["description"] for c in r.failed_checks):
                    rep, detail = common.sys_replay(name)
                    native["system:" + name] = {"reproduced": rep, "detail": detail}
        path = common.save_replay(prop, h, r.failed_checks, vecs, src, native)
        # harnesses with stubbed callees cannot be replayed natively: the solver's verdict (the failed
        # checks, listed in the replay file) is what is reported, with or without extracted values
        if reproduced or stubbed or (vecs is not None and not cfg.get("native_replay", False)):
            confirmed.append((h, path))
        else:
            unreproduced.append((h, path))
    for h, path in confirmed:
        print("VIOLATION property=%s replay=%s" % (prop, path))
        r = results[h]
        for c in r.failed_checks[:4]:
            print("  failed: %s  (%s, %s)" % (c["description"], c["function"], c["location"]))
        exit_code = 1
    if violations and not confirmed:
        exit_code = 2
        for h, path in unreproduced:
            print("UNCONFIRMED property=%s harness=%s: the solver's counterexample did not reproduce natively (%s)" % (prop, h, path))
    if exit_code == 0 and (undecided or vacuous):
        exit_code = 2
    for h in undecided:
        print("UNDECIDED property=%s harness=%s: %s" % (prop, h, results[h].reason))
    for w in vacuous:
        print("VACUITY property=%s witness=%s did not fail as it must (status %s)" % (prop, w, results[w].status))

    _evidence(prop, tier, seed, cfg, fp, results, harnesses, witnesses, t0, len(violations), known,
              undecided_note="; ".join(undecided[:5]))
    n_ok = sum(1 for h in harnesses if results[h].status == "success")
    print("%s tier=%s seed=%d: %d/%d harnesses proved, %d known, %d violating, %d undecided, witnesses %d/%d, %.0f s"
          % (prop, tier, seed, n_ok, len(harnesses), len(known), len(violations), len(undecided),
             len(witnesses) - len(vacuous), len(witnesses), time.time() - t0))
    return exit_code


def _evidence(prop, tier, seed, cfg, fp, results, harnesses, witnesses, t0, n_viol, known, undecided_note=""):
    hr = [results[h] for h in harnesses]
    decided = [r for r in hr if r.status in ("success", "failure")]
    obligations = sum(r.n_checks for r in hr)
    discharged = sum(r.n_passed for r in hr if r.status in ("success", "failure"))
    nontrivial = sum(1 for r in decided if (r.stats.get("vccs_remaining") or 0) > 0)
    solver_s = sum((r.stats.get("runtime_decision_procedure_s") or 0.0) for r in hr)
    symex_s = sum((r.stats.get("runtime_symex_s") or 0.0) for r in hr)
    samples = [r.to_json() for r in hr[:3]] + [r.to_json() for r in hr if r.status != "success"][:5]
    coverage = {
        "evaluations": len(hr),
        "distinct_nontrivial": nontrivial,
        "rule": "one evaluation = one Kani proof harness decided by CBMC/CaDiCaL over ALL values of its symbolic inputs; distinct = distinct harness instance (different concrete squares / kinds / groups); non-trivial = at least one verification condition survived simplification and went to the SAT solver",
        "samples": samples,
        "obligations": obligations,
        "discharged": discharged,
        "harnesses_proved": sum(1 for r in hr if r.status == "success"),
        "harnesses_failed": sum(1 for r in hr if r.status == "failure"),
        "harnesses_undecided": sum(1 for r in hr if r.status == "undecided"),
        "undecided": undecided_note,
        "known_findings_hit": [k[1].get("id") for k in known],
        "vacuity_witnesses": {w: results[w].status for w in witnesses},
        "checker_cmd": "cargo kani --exact -j N --output-format terse --no-assertion-reach-checks -Z unstable-options --harness-timeout T --export-json F --harness <each>  (Kani 0.68.0, CBMC 6.11.0, CaDiCaL)",
        "trusted_base": ["Kani 0.68 / CBMC 6.11 / CaDiCaL", "rustc MIR semantics as modelled by Kani (dev profile: overflow checks on)",
                         "oracle kani/src/spec.rs", "cfg(daniel729_chess_verif) accessors in /repo"],
        "functions_encoded": cfg["functions"],
        "bounds": cfg["bounds"],
        "solver_time_s": round(solver_s, 1),
        "symex_time_s": round(symex_s, 1),
        "vccs_sent_to_solver": sum((r.stats.get("vccs_remaining") or 0) for r in hr),
        "encoding_source": fp,
        "exhaustive": False,
        "explanation": "bounded symbolic model checking of the real functions (compiled from /repo's working tree on this run); within the stated bounds the verdict covers every input value, outside them nothing is claimed",
    }
    common.write_evidence(prop, tier, seed, LEVEL, coverage, cfg["assumptions"], time.time() - t0, n_viol)


def replay(prop, path):
    d = json.load(open(path))
    vecs = d.get("values")
    if vecs is None:
        print("replay file holds no concrete values")
        return 2
    rc = 0
    for profile in ("dev", "release"):
        rep, detail = common.native_replay(d["harness"], vecs, profile)
        print("[%s] %s" % (profile, "REPRODUCED" if rep else "not reproduced"))
        print(detail)
        if rep:
            rc = 1
    return rc
