"""Driving Kani/CBMC on the harness crate and reading its verdicts.

Every call recompiles the harness crate, whose modules are /repo's current sources
(#[path] includes), so the encoding always comes from the working tree.
"""
import json
import os
import re
import resource
import subprocess
import tempfile
import time

VERIF = os.path.dirname(os.path.dirname(os.path.abspath(__file__)))
CRATE = os.path.join(VERIF, "kani")
TARGET = os.path.join(CRATE, "target")

ENV = dict(os.environ)
ENV.update({
    "CARGO_NET_OFFLINE": "true",
    "CARGO_TERM_COLOR": "never",
})
# the harness crate must never pick up a caller's RUSTFLAGS (Kani sets its own)
ENV.pop("RUSTFLAGS", None)


def _limits():
    # 24 GB of address space per process: an exploding CBMC dies instead of taking the box down
    lim = 24 * 1024 ** 3
    try:
        resource.setrlimit(resource.RLIMIT_AS, (lim, lim))
    except Exception:
        pass


def _prune_old_builds(max_age_s=3 * 3600):
    """Every distinct harness selection gets its own build directory under target/ (hundreds of
    MB of goto binaries each); drop the ones not touched for a few hours to bound disk use."""
    import glob
    import shutil
    now = time.time()
    for d in glob.glob(os.path.join(TARGET, "kani", "*", "debug", "build", "rbverif", "*")):
        try:
            if now - os.path.getmtime(d) > max_age_s:
                shutil.rmtree(d, ignore_errors=True)
        except OSError:
            pass


class HarnessResult:
    def __init__(self, name):
        self.name = name
        self.status = "undecided"   # success | failure | undecided
        self.reason = ""
        self.failed_checks = []     # [{description, location, function}]
        self.n_checks = 0
        self.n_passed = 0
        self.duration_s = 0.0
        self.stats = {}

    def to_json(self):
        return {
            "harness": self.name, "status": self.status, "reason": self.reason,
            "checks": self.n_checks, "checks_passed": self.n_passed,
            "failed_checks": self.failed_checks[:8],
            "wall_s": round(self.duration_s, 2),
            "cbmc": self.stats,
        }


def run(harnesses, jobs=16, harness_timeout=900, extra_args=(), overall_timeout=None):
    """Runs the named harnesses (fully qualified, e.g. h_push::pn_succ_e2e4).
    Returns (dict name -> HarnessResult, build_ok, raw_log_tail)."""
    results = {h: HarnessResult(h) for h in harnesses}
    if not harnesses:
        return results, True, ""
    _prune_old_builds()
    fd, out_json = tempfile.mkstemp(prefix="kani_", suffix=".json")
    os.close(fd)
    os.unlink(out_json)
    cmd = ["cargo", "kani", "--exact", "-j", str(jobs), "--output-format", "terse",
           "--no-assertion-reach-checks", "-Z", "unstable-options", "-Z", "stubbing",
           "--harness-timeout", f"{int(harness_timeout)}s",
           "--export-json", out_json]
    cmd += list(extra_args)
    for h in harnesses:
        cmd += ["--harness", h]
    if overall_timeout is None:
        waves = (len(harnesses) + jobs - 1) // jobs
        overall_timeout = 600 + waves * (harness_timeout + 60)
    t0 = time.time()
    try:
        proc = subprocess.run(cmd, cwd=CRATE, env=ENV, stdout=subprocess.PIPE, stderr=subprocess.STDOUT,
                              timeout=overall_timeout, preexec_fn=_limits, text=True, errors="replace")
        log = proc.stdout
    except subprocess.TimeoutExpired as e:
        log = (e.stdout or b"").decode("utf-8", "replace") if isinstance(e.stdout, bytes) else (e.stdout or "")
        subprocess.run(["pkill", "-x", "cbmc"], check=False)
        for r in results.values():
            r.reason = "overall timeout"
        return results, True, log[-4000:]
    wall = time.time() - t0
    build_ok = True
    if "error: could not compile" in log or "error[E" in log or "internal compiler error" in log or "Failed to match the following harness" in log:
        build_ok = False
    if not os.path.exists(out_json):
        for r in results.values():
            r.reason = "no result file (build failed or Kani aborted)"
        return results, build_ok and False, log[-6000:]
    try:
        data = json.load(open(out_json))
    finally:
        try:
            os.unlink(out_json)
        except OSError:
            pass
    stats = {x["harness_id"]: (x.get("cbmc_stats") or {}) for x in data.get("cbmc", [])}
    for r in data.get("verification_results", {}).get("results", []):
        hid = r["harness_id"]
        if hid not in results:
            continue
        res = results[hid]
        res.duration_s = r.get("duration_ms", 0) / 1000.0
        res.stats = {k: v for k, v in (stats.get(hid) or {}).items()
                     if v is not None and k in ("runtime_symex_s", "runtime_solver_s", "runtime_decision_procedure_s",
                              "runtime_convert_ssa_s", "vccs_generated", "vccs_remaining", "size_program_expression")}
        checks = r.get("checks", [])
        res.n_checks = len(checks)
        failed = [c for c in checks if c.get("status") not in ("Success", "Unreachable", "Satisfied", "Covered")]
        res.n_passed = res.n_checks - len(failed)
        res.failed_checks = [{
            "description": c.get("description", ""),
            "function": c.get("function", ""),
            "status": c.get("status", ""),
            "location": "%s:%s" % (c.get("location", {}).get("file", "?"), c.get("location", {}).get("line", "?")),
        } for c in failed]
        st = r.get("status")
        if st == "Success" and not failed and res.n_checks > 0:
            res.status = "success"
        elif st == "Success" and res.n_checks == 0:
            res.status, res.reason = "undecided", "no checks reported"
        else:
            # a failed unwinding assertion, an unsupported construct, an undetermined status or a
            # solver error mean "not decided", never "violated" and never "holds"
            und = [c for c in res.failed_checks
                   if "unwinding assertion" in c["description"]
                   or "is not currently supported by Kani" in c["description"]
                   or c["status"] in ("Undetermined", "Unknown", "SolverError")]
            real = [c for c in res.failed_checks if c not in und]
            if real:
                res.status = "failure"
                res.failed_checks = real + und
            elif und:
                res.status, res.reason = "undecided", "unwinding bound / unsupported construct / undetermined"
            else:
                res.status, res.reason = "undecided", "harness did not complete (timeout, out of memory or CBMC error)"
    for res in results.values():
        if res.status == "undecided" and not res.reason:
            res.reason = "no verdict reported (timeout, out of memory or CBMC error)"
    return results, build_ok, log[-3000:]


PLAYBACK_RE = re.compile(r"```\s*\n(.*?)```", re.S)


def concrete_playback(harness, timeout=1200):
    """Re-runs one failing harness asking CBMC for a concrete counterexample.
    Returns (test_source or None, byte_vectors or None)."""
    cmd = ["cargo", "kani", "--exact", "--harness", harness, "--no-assertion-reach-checks", "-Z", "stubbing",
           "-Z", "concrete-playback", "--concrete-playback=print"]
    try:
        proc = subprocess.run(cmd, cwd=CRATE, env=ENV, stdout=subprocess.PIPE, stderr=subprocess.STDOUT,
                              timeout=timeout, preexec_fn=_limits, text=True, errors="replace")
    except subprocess.TimeoutExpired:
        return None, None
    m = PLAYBACK_RE.search(proc.stdout)
    if not m:
        return None, None
    src = m.group(1)
    vecs = []
    for line in src.splitlines():
        mm = re.match(r"\s*vec!\[([0-9,\s]*)\],?\s*$", line)
        if mm is not None:
            body = mm.group(1).strip()
            vecs.append([int(x) for x in body.split(",") if x.strip()] if body else [])
    return src, vecs
