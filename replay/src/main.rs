//! usage: rbreplay <harness> <values-file>
//! values-file: one line per `kani::any()` value, space separated decimal bytes (little endian).
//! exit 0 = harness body ran to the end (counterexample NOT reproduced natively)
//! exit 1 = an assertion / panic fired (reproduced); the message is printed
//! exit 3 = an assumption of the harness did not hold for these values
//! exit 4 = values do not fit the harness
//! (an abort from an unsafe-precondition check ends the process with SIGABRT)
use std::panic;

fn main() {
    let args: Vec<String> = std::env::args().collect();
    if args.len() >= 2 && args[1] == "--specval" {
        std::process::exit(specval());
    }
    if args.len() >= 3 && args[1] == "--sys" {
        std::process::exit(sys(&args[2]));
    }
    if args.len() < 3 {
        eprintln!("usage: rbreplay <harness> <values-file>");
        std::process::exit(2);
    }
    let text = std::fs::read_to_string(&args[2]).expect("values file");
    let mut values = Vec::new();
    for line in text.lines() {
        let line = line.trim();
        if line.starts_with('#') {
            continue;
        }
        values.push(line.split_whitespace().map(|x| x.parse::<u8>().expect("byte")).collect::<Vec<u8>>());
    }
    rbverif::shim::load(values);
    let name = args[1].clone();
    let result = panic::catch_unwind(move || rbverif::dispatch::run(&name));
    match result {
        Ok(true) => {
            let (used, total) = rbverif::shim::consumed();
            println!("REPLAY-PASSED: harness body completed without a failed assertion ({} of {} values used)", used, total);
            std::process::exit(0);
        }
        Ok(false) => {
            eprintln!("unknown harness {}", args[1]);
            std::process::exit(2);
        }
        Err(e) => {
            let msg = if let Some(s) = e.downcast_ref::<&str>() {
                s.to_string()
            } else if let Some(s) = e.downcast_ref::<String>() {
                s.clone()
            } else {
                "panic".to_string()
            };
            println!("REPLAY-REPRODUCED: {}", msg);
            std::process::exit(1);
        }
    }
}

/// Oracle validation: the spec's own move rules must reproduce the published perft numbers
/// (chessprogramming.org/Perft_Results, the same six positions the repository's tests use) and
/// the spec's hash of the start position must be the README's D9C54592621D7040.
fn specval() -> i32 {
    use rbverif::spec;
    let cases: [(&str, [u64; 3]); 6] = [
        ("rnbqkbnr/pppppppp/8/8/8/8/PPPPPPPP/RNBQKBNR w KQkq - 0 1", [20, 400, 8902]),
        ("r3k2r/p1ppqpb1/bn2pnp1/3PN3/1p2P3/2N2Q1p/PPPBBPPP/R3K2R w KQkq -", [48, 2039, 97862]),
        ("8/2p5/3p4/KP5r/1R3p1k/8/4P1P1/8 w - -", [14, 191, 2812]),
        ("r3k2r/Pppp1ppp/1b3nbN/nP6/BBP1P3/q4N2/Pp1P2PP/R2Q1RK1 w kq - 0 1", [6, 264, 9467]),
        ("rnbq1k1r/pp1Pbppp/2p5/8/2B5/8/PPP1NnPP/RNBQK2R w KQ - 1 8", [44, 1486, 62379]),
        ("r4rk1/1pp1qppp/p1np1n2/2b1p1B1/2B1P1b1/P1NP1N2/1PP1QPPP/R4RK1 w - - 0 10", [46, 2079, 89890]),
    ];
    let mut bad = 0;
    for (fen, want) in cases.iter() {
        let p = match spec::parse_fen(fen.as_bytes()) {
            Some(p) => p,
            None => {
                println!("SPECVAL-FAIL: spec does not read {}", fen);
                bad += 1;
                continue;
            }
        };
        for d in 1..=3u32 {
            let got = spec::perft(&p, d);
            if got != want[(d - 1) as usize] {
                println!("SPECVAL-FAIL: perft {} of {} = {} (published {})", d, fen, got, want[(d - 1) as usize]);
                bad += 1;
            }
        }
        let (text, n) = spec::fen_text(&p);
        let head: Vec<&str> = fen.split(' ').take(4).collect();
        if !std::str::from_utf8(&text[..n]).unwrap().starts_with(&head.join(" ")) {
            println!("SPECVAL-FAIL: spec FEN writer does not round-trip {}", fen);
            bad += 1;
        }
    }
    let start = spec::parse_fen(b"rnbqkbnr/pppppppp/8/8/8/8/PPPPPPPP/RNBQKBNR w KQkq - 0 1").unwrap();
    if spec::hash(&start) != 0xD9C54592621D7040 {
        println!("SPECVAL-FAIL: spec hash of the start position is {:X}", spec::hash(&start));
        bad += 1;
    }
    if bad == 0 {
        println!("SPECVAL-OK: 18 published perft counts, 6 FEN round trips, start-position hash");
        0
    } else {
        1
    }
}

/// System-level replays of search findings on the REAL search (no stubs): the solver finds
/// these on one function with stubbed callees; here the whole engine is driven natively.
/// exit 1 = the defect shows, exit 0 = it does not.
fn sys(name: &str) -> i32 {
    use rbverif::chess::Game;
    use rbverif::search::{get_best_move_until_stop, TranspositionTable};
    use std::collections::HashMap;
    use std::sync::atomic::{AtomicBool, Ordering::Relaxed};
    use std::sync::{mpsc, Arc};
    use std::time::Duration;
    let new_table = || -> TranspositionTable { HashMap::with_hasher(Default::default()) };
    match name {
        // C07: the stop arrives before the first iteration completes
        "c07_stop_before_first_iteration" => {
            let game = Game::default();
            let mut table = new_table();
            let flag = AtomicBool::new(false);
            let r = get_best_move_until_stop(&game, &mut table, &flag, None);
            if r.is_none() {
                println!("SYS-REPRODUCED: stop before depth 1 completes -> no move (`bestmove none`) in the start position");
                1
            } else {
                println!("SYS-PASSED: a move is returned");
                0
            }
        }
        // C08: depth limit below the depth of the cached exact root entry
        "c08_limit_below_cached_depth" => {
            let (tx, rx) = mpsc::channel();
            let flag = Arc::new(AtomicBool::new(true));
            let f2 = flag.clone();
            std::thread::spawn(move || {
                let game = Game::default();
                let mut table = new_table();
                let _ = get_best_move_until_stop(&game, &mut table, &f2, Some(4));
                let _ = get_best_move_until_stop(&game, &mut table, &f2, Some(2));
                let _ = tx.send(());
            });
            match rx.recv_timeout(Duration::from_secs(25)) {
                Ok(()) => {
                    println!("SYS-PASSED: `go depth 2` after `go depth 4` ended by itself");
                    0
                }
                Err(_) => {
                    flag.store(false, Relaxed);
                    println!("SYS-REPRODUCED: `go depth 2` after `go depth 4` on the same position did not stop by itself within 25 s");
                    1
                }
            }
        }
        // C08: unlimited search on a tiny position
        "c08_unlimited_tiny_position" => {
            let flag = Arc::new(AtomicBool::new(true));
            let f2 = flag.clone();
            let h = std::thread::spawn(move || {
                let game = Game::new("8/8/8/4k3/8/8/4K3/8 w - -").unwrap();
                let mut table = new_table();
                get_best_move_until_stop(&game, &mut table, &f2, None)
            });
            for _ in 0..200 {
                std::thread::sleep(Duration::from_millis(100));
                if h.is_finished() {
                    break;
                }
            }
            flag.store(false, Relaxed);
            match h.join() {
                Ok(_) => {
                    println!("SYS-PASSED: the unlimited search ran for 20 s (or ended) without crashing");
                    0
                }
                Err(_) => {
                    println!("SYS-REPRODUCED: the unlimited search on K v K panicked");
                    1
                }
            }
        }
        _ => {
            eprintln!("unknown system replay {}", name);
            2
        }
    }
}
